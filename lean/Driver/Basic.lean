import Lean.Data.Json
/-! JSON helpers shared by the per-property handlers of the driver. -/
open Lean

namespace Driver

abbrev R := Except String

def field (j : Json) (k : String) : R Json := j.getObjVal? k
def natF (j : Json) (k : String) : R Nat := do (← field j k).getNat?
def intF (j : Json) (k : String) : R Int := do (← field j k).getInt?
def strF (j : Json) (k : String) : R String := do (← field j k).getStr?
def boolF (j : Json) (k : String) : R Bool := do (← field j k).getBool?
def arrF (j : Json) (k : String) : R (Array Json) := do (← field j k).getArr?
def optF (j : Json) (k : String) : Option Json :=
  match j.getObjVal? k with
  | .ok .null => none
  | .ok v => some v
  | .error _ => none

def natList (j : Json) : R (List Nat) := do
  let a ← j.getArr?
  a.toList.mapM (·.getNat?)

def optNat (j : Json) : R (Option Nat) :=
  match j with
  | .null => pure none
  | v => do pure (some (← v.getNat?))

def idx (a : Array Json) (i : Nat) : R Json :=
  match a[i]? with
  | some v => pure v
  | none => throw s!"index {i} out of range"

def jOptNat : Option Nat → Json
  | none => .null
  | some n => toJson n

def jNatList (l : List Nat) : Json := Json.arr (l.map (toJson ·)).toArray

/-- Strings travel as lists of code points (JSON text cannot carry NUL or lone
surrogates portably). -/
def chars (j : Json) : R (List Char) := do
  let a ← j.getArr?
  a.toList.mapM fun c => do pure (Char.ofNat (← c.getNat?))

def jChars (s : List Char) : Json := Json.arr (s.map (fun c => toJson c.toNat)).toArray

def bytes (j : Json) : R (List UInt8) := do
  let a ← j.getArr?
  a.toList.mapM fun c => do pure (UInt8.ofNat (← c.getNat?))

def jBytes (s : List UInt8) : Json := Json.arr (s.map (fun c => toJson c.toNat)).toArray

end Driver
