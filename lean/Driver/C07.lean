import Driver.Basic
import Cfi.Container
import Spec.C07
open Lean Cfi.Container

namespace Driver.C07

def decodeOp (j : Json) : R Op := do
  let a ← j.getArr?
  let name ← (← idx a 0).getStr?
  match name with
  | "prepend" => pure (.prepend (← (← idx a 1).getNat?))
  | "append" => pure (.append (← (← idx a 1).getNat?))
  | "add_before" => pure (.addBefore (← (← idx a 1).getNat?) (← (← idx a 2).getNat?))
  | "add_after" => pure (.addAfter (← (← idx a 1).getNat?) (← (← idx a 2).getNat?))
  | "remove" => pure (.remove (← (← idx a 1).getNat?))
  | _ => throw s!"unknown op {name}"

def pairList (j : Json) : R (List (Nat × Nat)) := do
  (← j.getArr?).toList.mapM fun e => do
    let a ← e.getArr?
    pure ((← (← idx a 0).getNat?), (← (← idx a 1).getNat?))

def decodeObs (j : Json) : R Spec.C07.Obs := do
  let links ← (← arrF j "links").toList.mapM fun e => do
    let a ← e.getArr?
    pure ((← (← idx a 0).getNat?), (← optNat (← idx a 1)), (← optNat (← idx a 2)),
          (← (← idx a 3).getBool?), (← (← idx a 4).getBool?))
  pure { iter := ← natList (← field j "iter"), len := ← natF j "len",
         first := ← natF j "first", last := ← natF j "last",
         links := links, back := ← natList (← field j "back"),
         zipped := ← pairList (← field j "zipped"), nested := ← pairList (← field j "nested") }

def encodeObs (o : Spec.C07.Obs) : Json :=
  Json.mkObj [
    ("iter", jNatList o.iter), ("len", toJson o.len), ("first", toJson o.first),
    ("last", toJson o.last),
    ("links", Json.arr (o.links.map fun (x, p, n, f, l) =>
      Json.arr #[toJson x, jOptNat p, jOptNat n, toJson f, toJson l]).toArray),
    ("back", jNatList o.back),
    ("zipped", Json.arr (o.zipped.map fun (a, b) => Json.arr #[toJson a, toJson b]).toArray),
    ("nested", Json.arr (o.nested.map fun (a, b) => Json.arr #[toJson a, toJson b]).toArray)]

/-- Request: `{root, fuel, ops:[...], obs:[obs after each op (index 0 = initial)]}`.
The model and the abstract list are advanced op by op; at every step the
implementation's observation is compared with the model's (`agree`) and the
property is evaluated on it (`holds`).  Reports the first failing step. -/
def handle (j : Json) : R Json := do
  let root ← natF j "root"
  let fuel ← natF j "fuel"
  let ops ← (← arrF j "ops").toList.mapM decodeOp
  let obs ← (← arrF j "obs").toList.mapM decodeObs
  let histok := HistOk [root] ops
  let rec go (i : Nat) (s : Heap) (l : List Id) (ops : List Op) (obs : List Spec.C07.Obs) : Json :=
    match obs with
    | [] => Json.null
    | o :: obs' =>
      let m := Spec.C07.observe s fuel
      let agree := decide (m = o)
      let holds := Spec.C07.holds l o
      let mholds := Spec.C07.holds l m
      if !(agree && holds && mholds) then
        Json.mkObj [("step", toJson i), ("agree", toJson agree), ("holds", toJson holds),
          ("model_holds", toJson mholds),
          ("model", encodeObs m), ("expected", encodeObs (Spec.C07.expected l)), ("spec_list", jNatList l)]
      else match ops with
        | [] => Json.null
        | op :: ops' => go (i + 1) (step s op) (specStep l op) ops' obs'
  pure (Json.mkObj [("histok", toJson histok), ("fail", go 0 (init root) [root] ops obs)])

end Driver.C07
