import Driver.Codec
import Spec.C04
import Spec.C05
import Spec.C10
import Spec.C12
open Lean Cfi Cfi.Regex

namespace Driver.FilesH

def decodeReg (j : Json) : R RegDef := do
  let ident ← chars (← field j "ident")
  let digits ← natF j "digits"
  let fields ← decodeFields (← field j "fields")
  let delim ← decodeDelim ((j.getObjVal? "delimiter").toOption.getD Json.null)
  pure { ident := ident, digits := digits, fields := fields, delimiter := delim }

def decodeRegs (j : Json) : R (List RegDef) := do (← j.getArr?).toList.mapM decodeReg

def decodeRElem (j : Json) : R RElem := do
  match j.getObjVal? "dflt" with
  | .ok d => pure (.dflt (← decodeData d))
  | .error _ => pure (.typed (← natF j "cls") (← decodeVals (← field j "data")))

def encodeRElem : RElem → Json
  | .typed i d => Json.mkObj [("cls", toJson i), ("data", encodeVals d)]
  | .dflt d => Json.mkObj [("dflt", encodeData d)]

def decodeRElems (j : Json) : R (List RElem) := do (← j.getArr?).toList.mapM decodeRElem
def encodeRElems (es : List RElem) : Json := Json.arr (es.map encodeRElem).toArray

def encExc (e : Exc) : Json := Json.mkObj [("exc", toJson (excName e))]

/-- C04 -/
def handleC04 (j : Json) : R Json := do
  let regs ← decodeRegs (← field j "regs")
  let content ← chars (← field j "content")
  let obsJ ← field j "obs"
  let indom := Spec.C04.inDomain regs
  let m := readRegFileText regs content
  let exp := Spec.C04.expected regs content
  let mholds := match m with
    | .ok es => Spec.C04.holds regs content es
    | .error _ => !indom
  let modelJ := match m with | .ok es => encodeRElems es | .error e => encExc e
  if isExc obsJ then
    pure (Json.mkObj [("indomain", toJson indom), ("agree", toJson false), ("holds", toJson false),
      ("model_holds", toJson mholds), ("model", modelJ)])
  else
    let obs ← decodeRElems obsJ
    let expJ := match exp with | .ok es => encodeRElems es | .error e => encExc e
    pure (Json.mkObj [("indomain", toJson indom), ("agree", toJson (m == .ok obs)),
      ("holds", toJson (Spec.C04.holds regs content obs)), ("model_holds", toJson mholds),
      ("model", modelJ), ("expected", expJ)])

/-- C05 -/
def handleC05 (j : Json) : R Json := do
  let regs ← decodeRegs (← field j "regs")
  let es ← decodeRElems (← field j "elems")
  let obsJ ← field j "obs"
  let indom := Spec.C05.inDomain regs es
  let m := Spec.C05.cycle regs es
  let enc (o : Spec.C05.Obs) : Json :=
    Json.mkObj [("written", jChars o.written), ("reread", encodeRElems o.reread), ("file_eq", toJson o.fileEq)]
  let mholds := match m with
    | some o => Spec.C05.holds es o
    | none => !indom
  if isExc obsJ then
    pure (Json.mkObj [("indomain", toJson indom), ("agree", toJson false), ("holds", toJson false),
      ("model_holds", toJson mholds), ("model", (m.map enc).getD Json.null)])
  else
    let w ← chars (← field obsJ "written")
    let rr ← decodeRElems (← field obsJ "reread")
    let fe ← boolF obsJ "file_eq"
    let o : Spec.C05.Obs := { written := w, reread := rr, fileEq := fe }
    pure (Json.mkObj [("indomain", toJson indom), ("agree", toJson (m == some o)),
      ("holds", toJson (Spec.C05.holds es o)), ("model_holds", toJson mholds),
      ("model", (m.map enc).getD Json.null),
      ("domain_parts", toJson [Spec.C04.inDomain regs, regs.all (fun r => r.delimiter == .none),
        Spec.C05.unambiguous regs, Spec.C05.elemsOk regs es])])

/-- C05 second shape: registers with all-None data produce no output
`{regs, elems (may contain empty registers), obs: {written}}` -/
def handleC05Skip (j : Json) : R Json := do
  let regs ← decodeRegs (← field j "regs")
  let es ← decodeRElems (← field j "elems")
  let obsJ ← field j "obs"
  let m := writeRegFileText regs (RElem.placeholder :: es)
  let indom := Spec.C04.inDomain regs && es.all (fun e => match e with
    | .typed i data => (match regs[i]? with
        | some r => data.length == r.fields.length &&
            (RegDef.isEmpty data || (r.fields.zip data).all (fun (f, v) => Spec.C01.fieldInDomain f v))
        | none => false)
    | .dflt (.str _) => true
    | _ => false)
  let modelJ := match m with | .ok w => jChars w | .error e => encExc e
  let mholds := match m with
    | .ok w => Spec.C05.holdsSkipEmpty regs es w
    | .error _ => !indom
  if isExc obsJ then
    pure (Json.mkObj [("indomain", toJson indom), ("agree", toJson false), ("holds", toJson false),
      ("model_holds", toJson mholds), ("model", modelJ)])
  else
    let w ← chars (← field obsJ "written")
    pure (Json.mkObj [("indomain", toJson indom), ("agree", toJson (m == .ok w)),
      ("holds", toJson (Spec.C05.holdsSkipEmpty regs es w)), ("model_holds", toJson mholds), ("model", modelJ)])

/-- C06 -/
def handleC06 (j : Json) : R Json := do
  let regs ← decodeRegs (← field j "regs")
  let x ← chars (← field j "x")
  let obsJ ← field j "obs"
  let indom := Spec.C06.inDomain regs x
  let my := Spec.C06.rw regs x
  let my2 := my.bind (Spec.C06.rw regs)
  let m : Option Spec.C06.Obs := match my, my2 with
    | some y, some y2 => some ⟨y, y2⟩
    | _, _ => none
  let enc (o : Spec.C06.Obs) : Json := Json.mkObj [("y", jChars o.y), ("y2", jChars o.y2)]
  let mholds := match m with
    | some o => Spec.C06.holds regs x o
    | none => !indom
  if isExc obsJ then
    pure (Json.mkObj [("indomain", toJson indom), ("agree", toJson false), ("holds", toJson false),
      ("model_holds", toJson mholds), ("model", (m.map enc).getD Json.null)])
  else
    let y ← chars (← field obsJ "y")
    let y2 ← chars (← field obsJ "y2")
    let o : Spec.C06.Obs := { y := y, y2 := y2 }
    pure (Json.mkObj [("indomain", toJson indom), ("agree", toJson (m == some o)),
      ("holds", toJson (Spec.C06.holds regs x o)), ("model_holds", toJson mholds),
      ("model", (m.map enc).getD Json.null),
      ("default_lines_x", Json.arr ((Spec.C06.defaultLines regs x).map jChars).toArray)])

/-- C10 -/
def handleC10 (j : Json) : R Json := do
  let st := decodeStorage j "storage"
  let items ← (← arrF j "items").toList.mapM fun it => do
    pure ((← decodeReg (← field it "reg")), (← decodeVals (← field it "data")))
  let obsJ ← field j "obs"
  let indom := Spec.C10.inDomain st items
  let m := Spec.C10.run st items
  let enc (os : List Spec.C10.RegObs) : Json :=
    Json.arr (os.map fun o => Json.mkObj [("written", encodeData o.written), ("tell_write", toJson o.tellWrite),
      ("matched", toJson o.matched), ("read_data", encodeVals o.readData), ("tell_read", toJson o.tellRead)]).toArray
  let mholds := match m with
    | some os => Spec.C10.holds st items os
    | none => !indom
  if isExc obsJ then
    pure (Json.mkObj [("indomain", toJson indom), ("agree", toJson false), ("holds", toJson false),
      ("model_holds", toJson mholds), ("model", (m.map enc).getD Json.null)])
  else
    let os ← (← obsJ.getArr?).toList.mapM fun o => do
      let w ← decodeData (← field o "written")
      let tw ← natF o "tell_write"
      let mt ← boolF o "matched"
      let rd ← decodeVals (← field o "read_data")
      let tr ← natF o "tell_read"
      pure ({ written := w, tellWrite := tw, matched := mt, readData := rd, tellRead := tr } : Spec.C10.RegObs)
    pure (Json.mkObj [("indomain", toJson indom), ("agree", toJson (m == some os)),
      ("holds", toJson (Spec.C10.holds st items os)), ("model_holds", toJson mholds),
      ("model", (m.map enc).getD Json.null)])

/-! regex AST -/
partial def decodeRe (dec : Json → R α) (j : Json) : R (Re α) := do
  let a ← j.getArr?
  match ← (← idx a 0).getStr? with
  | "none" => pure .none
  | "eps" => pure .eps
  | "chr" => pure (.chr (← dec (← idx a 1)))
  | "any" => pure .any
  | "set" => do pure (.set (← (← (← idx a 1).getArr?).toList.mapM dec))
  | "cat" => do pure (.cat (← decodeRe dec (← idx a 1)) (← decodeRe dec (← idx a 2)))
  | "alt" => do pure (.alt (← decodeRe dec (← idx a 1)) (← decodeRe dec (← idx a 2)))
  | "star" => do pure (.star (← decodeRe dec (← idx a 1)))
  | k => throw s!"bad re {k}"

def decodePat (dec : Json → R α) (j : Json) : R (Pat α) := do
  let a ← boolF j "anchored"
  let r ← decodeRe dec (← field j "re")
  pure { anchored := a, re := r }

def decChar (j : Json) : R Char := do pure (Char.ofNat (← j.getNat?))
def decByte (j : Json) : R UInt8 := do pure (UInt8.ofNat (← j.getNat?))

def decodeBElem (dec : Json → R (List α)) (j : Json) : R (BElem α) := do
  match j.getObjVal? "dflt" with
  | .ok d => pure (.dflt (← dec d))
  | .error _ => pure (.block (← natF j "cls") (← (← arrF j "raw").toList.mapM dec))

def encodeBElem (enc : List α → Json) : BElem α → Json
  | .block i raw => Json.mkObj [("cls", toJson i), ("raw", Json.arr (raw.map enc).toArray)]
  | .dflt l => Json.mkObj [("dflt", enc l)]

/-- C12 (text: α = Char, binary: α = UInt8) -/
def handleC12G [DecidableEq α] (nl : α) (binary : Bool) (decA : Json → R α) (decL : Json → R (List α))
    (encL : List α → Json) (j : Json) : R Json := do
  let blocks ← (← arrF j "blocks").toList.mapM fun b => do
    let bg ← decodePat decA (← field b "begin")
    let en ← decodePat decA (← field b "end")
    pure ({ begin_ := bg, end_ := en } : BlockDef α)
  let x ← decL (← field j "x")
  let obsJ ← field j "obs"
  let mel := readBlockFile nl binary blocks x
  let m : Spec.C12.Obs α := ⟨mel, writeBlockFile mel⟩
  let enc (o : Spec.C12.Obs α) : Json :=
    Json.mkObj [("elems", Json.arr (o.elems.map (encodeBElem encL)).toArray), ("written", encL o.written)]
  let mholds := Spec.C12.holds nl binary blocks x m
  if isExc obsJ then
    pure (Json.mkObj [("indomain", toJson true), ("agree", toJson false), ("holds", toJson false),
      ("model_holds", toJson mholds), ("model", enc m)])
  else
    let els ← (← arrF obsJ "elems").toList.mapM (decodeBElem decL)
    let w ← decL (← field obsJ "written")
    let o : Spec.C12.Obs α := { elems := els, written := w }
    pure (Json.mkObj [("indomain", toJson true), ("agree", toJson (m == o)),
      ("holds", toJson (Spec.C12.holds nl binary blocks x o)), ("model_holds", toJson mholds), ("model", enc m)])

def handleC12 (j : Json) : R Json := do
  if ← boolF j "binary" then handleC12G (10 : UInt8) true decByte bytes jBytes j
  else handleC12G '\n' false decChar chars jChars j

def decodeSec (j : Json) : R SecDef := do
  match j.getObjVal? "fixed" with
  | .ok n => pure (.fixed (← n.getNat?))
  | .error _ => pure (.until_ (← decodePat decChar (← field j "until")))

def decodeSElem (j : Json) : R SElem := do
  match j.getObjVal? "dflt" with
  | .ok d => pure (.dflt (← chars d))
  | .error _ => pure (.section_ (← natF j "cls") (← (← arrF j "raw").toList.mapM chars))

def encodeSElem : SElem → Json
  | .section_ i raw => Json.mkObj [("cls", toJson i), ("raw", Json.arr (raw.map jChars).toArray)]
  | .dflt l => Json.mkObj [("dflt", jChars l)]

/-- C13 -/
def handleC13 (j : Json) : R Json := do
  let secs ← (← arrF j "secs").toList.mapM decodeSec
  let x ← chars (← field j "x")
  let obsJ ← field j "obs"
  let mel := readSectionFile secs x
  let m : Spec.C13.Obs := ⟨mel, writeSectionFile mel⟩
  let enc (o : Spec.C13.Obs) : Json :=
    Json.mkObj [("elems", Json.arr (o.elems.map encodeSElem).toArray), ("written", jChars o.written)]
  let mholds := Spec.C13.holds secs x m
  if isExc obsJ then
    pure (Json.mkObj [("indomain", toJson true), ("agree", toJson false), ("holds", toJson false),
      ("model_holds", toJson mholds), ("model", enc m)])
  else
    let els ← (← arrF obsJ "elems").toList.mapM decodeSElem
    let w ← chars (← field obsJ "written")
    let o : Spec.C13.Obs := { elems := els, written := w }
    pure (Json.mkObj [("indomain", toJson true), ("agree", toJson (m == o)),
      ("holds", toJson (Spec.C13.holds secs x o)), ("model_holds", toJson mholds), ("model", enc m)])

/-- C18: `{family: register|block|section, binary, regs|blocks|secs, linesize, x, obs:{returned, appends}}` -/
def handleC18 (j : Json) : R Json := do
  let fam ← strF j "family"
  let binary ← boolF j "binary"
  let obsJ ← field j "obs"
  let ret ← boolF obsJ "returned"
  let app ← natF obsJ "appends"
  let o : Spec.C18.Obs := { returned := ret, appends := app }
  -- the model's element count and the unit count of the content
  let (mcount, units, extra, indom) : Nat × Nat × Nat × Bool ← match fam, binary with
    | "register", false => do
      let regs ← decodeRegs (← field j "regs")
      let x ← chars (← field j "x")
      let n := match readRegFileText regs x with | .ok es => es.length - 1 | .error _ => 0
      pure (n, (Text.splitLines x).length, 0, Spec.C04.inDomain regs)
    | "register", true => do
      let regs ← decodeRegs (← field j "regs")
      let x ← bytes (← field j "x")
      let ls ← natF j "linesize"
      let n := match readRegFileBin regs ls x with | .ok es => es.length - 1 | .error _ => 0
      -- domain: records are at least one byte wide, the peek window covers every identifier window
      pure (n, x.length, 0, regs.all (fun r => decide (0 < r.recordSize ∧ r.digits ≤ ls)) &&
        (readRegFileBin regs ls x).toOption.isSome)
    | "block", false => do
      let blocks ← (← arrF j "blocks").toList.mapM fun b => do
        let bg ← decodePat decChar (← field b "begin")
        let en ← decodePat decChar (← field b "end")
        pure ({ begin_ := bg, end_ := en } : BlockDef Char)
      let x ← chars (← field j "x")
      pure ((readBlockFile '\n' false blocks x).length - 1, (Text.splitLines x).length, 0, true)
    | "block", true => do
      let blocks ← (← arrF j "blocks").toList.mapM fun b => do
        let bg ← decodePat decByte (← field b "begin")
        let en ← decodePat decByte (← field b "end")
        pure ({ begin_ := bg, end_ := en } : BlockDef UInt8)
      let x ← bytes (← field j "x")
      pure ((readBlockFile (10 : UInt8) true blocks x).length - 1, x.length, 0, true)
    | "section", _ => do
      let secs ← (← arrF j "secs").toList.mapM decodeSec
      let x ← chars (← field j "x")
      pure ((readSectionFile secs x).length - 1, (Text.splitLines x).length, secs.length, true)
    | f, _ => throw s!"bad family {f}"
  let bound := units + extra
  pure (Json.mkObj [("indomain", toJson indom), ("agree", toJson (o.returned && o.appends == mcount)),
    ("holds", toJson (Spec.C18.holds bound o)),
    ("model_holds", toJson (Spec.C18.holds bound ⟨true, mcount⟩)),
    ("model", Json.mkObj [("appends", toJson mcount), ("bound", toJson bound)])])

end Driver.FilesH
