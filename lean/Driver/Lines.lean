import Driver.Codec
import Spec.C01
import Spec.C09
import Spec.C11
open Lean Cfi

namespace Driver.Lines

def encodeObs (o : Spec.C01.Obs) : Json :=
  Json.mkObj [("written", jChars o.written), ("read_back", encodeVals o.readBack), ("rewritten", jChars o.rewritten)]

def decodeObs (j : Json) : R Spec.C01.Obs := do
  pure { written := ← chars (← field j "written"), readBack := ← decodeVals (← field j "read_back"),
         rewritten := ← chars (← field j "rewritten") }

/-- C01: `{fields, values, obs: {written, read_back, rewritten} | {exc}}` -/
def handleC01 (j : Json) : R Json := do
  let fs ← decodeFields (← field j "fields")
  let vs ← decodeVals (← field j "values")
  let obsJ ← field j "obs"
  let indom := Spec.C01.inDomain fs vs
  let m := Spec.C01.cycle fs vs
  let mholds := match m with
    | some o => Spec.C01.holds fs vs o
    | none => !indom
  if isExc obsJ then
    pure (Json.mkObj [("indomain", toJson indom), ("agree", toJson false), ("holds", toJson false),
      ("model_holds", toJson mholds), ("model", (m.map encodeObs).getD Json.null)])
  else
    let o ← decodeObs obsJ
    let agree := m == some o
    let holds := Spec.C01.holds fs vs o
    -- which clause fails (for the replay file)
    let why : List String :=
      (if o.rewritten != o.written then ["re-written text differs from the written text"] else []) ++
      (if o.readBack != (fs.zip vs).map (fun (f, v) => Spec.C01.canon f v (Text.slice o.written f.start f.stop))
        then ["values read back are not the canonical form"] else []) ++
      (if !(fs.zip vs).all (fun (f, v) => Spec.C01.floatClauses f v (Text.slice o.written f.start f.stop))
        then ["a float is not rendered in the configured dialect / accuracy / maximal decimals"] else [])
    pure (Json.mkObj [("indomain", toJson indom), ("agree", toJson agree), ("holds", toJson holds),
      ("model_holds", toJson mholds), ("model", (m.map encodeObs).getD Json.null), ("clauses", toJson why)])

/-- C09: `{fields, values, obs: {written: bytes, read_back} | {exc}}` -/
def handleC09 (j : Json) : R Json := do
  let fs ← decodeFields (← field j "fields")
  let vs ← decodeVals (← field j "values")
  let obsJ ← field j "obs"
  let indom := Spec.C09.inDomain fs vs
  let m := Spec.C09.cycle fs vs
  let mholds := match m with
    | some o => Spec.C09.holds fs vs o
    | none => !indom
  let enc (o : Spec.C09.Obs) : Json :=
    Json.mkObj [("written", jBytes o.written), ("read_back", encodeVals o.readBack)]
  if isExc obsJ then
    pure (Json.mkObj [("indomain", toJson indom), ("agree", toJson false), ("holds", toJson false),
      ("model_holds", toJson mholds), ("model", (m.map enc).getD Json.null)])
  else
    let o : Spec.C09.Obs := { written := ← bytes (← field obsJ "written"),
                              readBack := ← decodeVals (← field obsJ "read_back") }
    pure (Json.mkObj [("indomain", toJson indom), ("agree", toJson (m == some o)),
      ("holds", toJson (Spec.C09.holds fs vs o)), ("model_holds", toJson mholds),
      ("model", (m.map enc).getD Json.null)])

/-- C11: `{fields, values, delimiter, pads:[[a,b]…], lines:[str…],
obs: {written, read_back, read_padded, seq_reads} | {exc}}`; replies with the padded line too -/
def handleC11 (j : Json) : R Json := do
  let fs ← decodeFields (← field j "fields")
  let vs ← decodeVals (← field j "values")
  let d ← chars (← field j "delimiter")
  let pads ← (← arrF j "pads").toList.mapM fun p => do
    let a ← natList p
    pure (a.getD 0 0, a.getD 1 0)
  let lines ← (← arrF j "lines").toList.mapM chars
  let indom := Spec.C11.inDomain fs vs d
  let m := Spec.C11.cycle fs vs d pads lines
  let mholds := match m with
    | some o => Spec.C11.holds fs vs d pads lines o
    | none => !indom
  let enc (o : Spec.C11.Obs) : Json :=
    Json.mkObj [("written", jChars o.written), ("read_back", encodeVals o.readBack),
      ("read_padded", encodeVals o.readPadded), ("seq_reads", Json.arr (o.seqReads.map encodeVals).toArray)]
  let padded : Json := match Spec.C11.tokens fs vs with
    | some ts => jChars (Spec.C11.padLine ts d pads)
    | none => Json.null
  match j.getObjVal? "obs" with
  | .error _ =>
    -- first phase: the harness asks for the padded line
    pure (Json.mkObj [("indomain", toJson indom), ("padded", padded)])
  | .ok obsJ =>
    if isExc obsJ then
      pure (Json.mkObj [("indomain", toJson indom), ("agree", toJson false), ("holds", toJson false),
        ("model_holds", toJson mholds), ("model", (m.map enc).getD Json.null)])
    else
      let o : Spec.C11.Obs := {
        written := ← chars (← field obsJ "written"),
        readBack := ← decodeVals (← field obsJ "read_back"),
        readPadded := ← decodeVals (← field obsJ "read_padded"),
        seqReads := ← (← arrF obsJ "seq_reads").toList.mapM decodeVals }
      pure (Json.mkObj [("indomain", toJson indom), ("agree", toJson (m == some o)),
        ("holds", toJson (Spec.C11.holds fs vs d pads lines o)), ("model_holds", toJson mholds),
        ("model", (m.map enc).getD Json.null)])

end Driver.Lines
