import Driver.Codec
import Spec.C01
open Lean Cfi

namespace Driver.Lines

def encodeObs (o : Spec.C01.Obs) : Json :=
  Json.mkObj [("written", jChars o.written), ("read_back", encodeVals o.readBack), ("rewritten", jChars o.rewritten)]

def decodeObs (j : Json) : R Spec.C01.Obs := do
  pure { written := ← chars (← field j "written"), readBack := ← decodeVals (← field j "read_back"),
         rewritten := ← chars (← field j "rewritten") }

/-- C01: `{fields, values, obs: {written, read_back, rewritten} | {exc}}` -/
def handleC01 (j : Json) : R Json := do
  let fs ← decodeFields (← field j "fields")
  let vs ← decodeVals (← field j "values")
  let obsJ ← field j "obs"
  let indom := Spec.C01.inDomain fs vs
  let m := Spec.C01.cycle fs vs
  let mholds := match m with
    | some o => Spec.C01.holds fs vs o
    | none => !indom
  if isExc obsJ then
    pure (Json.mkObj [("indomain", toJson indom), ("agree", toJson false), ("holds", toJson false),
      ("model_holds", toJson mholds), ("model", (m.map encodeObs).getD Json.null)])
  else
    let o ← decodeObs obsJ
    let agree := m == some o
    let holds := Spec.C01.holds fs vs o
    -- which clause fails (for the replay file)
    let why : List String :=
      (if o.rewritten != o.written then ["re-written text differs from the written text"] else []) ++
      (if o.readBack != (fs.zip vs).map (fun (f, v) => Spec.C01.canon f v (Text.slice o.written f.start f.stop))
        then ["values read back are not the canonical form"] else []) ++
      (if !(fs.zip vs).all (fun (f, v) => Spec.C01.floatClauses f v (Text.slice o.written f.start f.stop))
        then ["a float is not rendered in the configured dialect / accuracy / maximal decimals"] else [])
    pure (Json.mkObj [("indomain", toJson indom), ("agree", toJson agree), ("holds", toJson holds),
      ("model_holds", toJson mholds), ("model", (m.map encodeObs).getD Json.null), ("clauses", toJson why)])

end Driver.Lines
