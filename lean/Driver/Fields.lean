import Driver.Codec
import Spec.C02
import Spec.C03
open Lean Cfi

namespace Driver.Fields

def dataOrExc (j : Json) : R (Option Data) :=
  if isExc j then pure none else do pure (some (← decodeData j))

/-- C03: a sequence of reads through ONE field object. -/
def handleC03 (j : Json) : R Json := do
  let f ← decodeField (← field j "field")
  let reads ← arrF j "reads"
  let mut bad : Option Json := none
  let mut i := 0
  for r in reads do
    let line ← decodeData (← field r "line")
    let outJ ← field r "out"
    let exp := Spec.C03.expected f line
    let ok ← if isExc outJ then pure false else do
      pure (Spec.C03.holds f line (← decodeVal outJ))
    if !ok && bad.isNone then
      bad := some (Json.mkObj [("index", toJson i), ("expected", encodeVal exp)])
    i := i + 1
  let exps ← reads.toList.mapM fun r => do
    pure (encodeVal (Spec.C03.expected f (← decodeData (← field r "line"))))
  pure (Json.mkObj [("indomain", toJson (Spec.C03.inDomain f)), ("holds", toJson bad.isNone),
    ("agree", toJson bad.isNone), ("model_holds", toJson true), ("first_bad", bad.getD Json.null),
    ("expected", Json.arr exps.toArray)])

def handleC02 (j : Json) : R Json := do
  match ← strF j "mode" with
  | "field" =>
    let f ← decodeField (← field j "field")
    let v ← decodeVal (← field j "value")
    let line ← decodeData (← field j "line")
    let out ← dataOrExc (← field j "out")
    match line with
    | .str l =>
      let m := f.writeText v l
      let indom := Spec.C02.fits f v
      let (agree, holds) := match out, m with
        | some (.str o), .ok mo => (decide (o = mo), Spec.C02.holdsField f v l o)
        | _, _ => (false, false)
      let mholds := match m with
        | .ok mo => Spec.C02.holdsField f v l mo
        | .error _ => !indom
      pure (Json.mkObj [("indomain", toJson indom), ("agree", toJson agree), ("holds", toJson holds),
        ("model_holds", toJson mholds), ("model", encodeExcept (fun s => encodeData (.str s)) m)])
    | .bytes l =>
      let m := f.writeBin v l
      let indom := f.stop == f.size + f.start && Spec.C02.typeOk f.kind v &&
        (match renderBin f v with | .ok r => r.length == f.size | .error _ => false)
      let (agree, holds) := match out, m with
        | some (.bytes o), .ok mo => (decide (o = mo), Spec.C02.holdsFieldBin f l o)
        | _, _ => (false, false)
      let mholds := match m with
        | .ok mo => Spec.C02.holdsFieldBin f l mo
        | .error _ => !indom
      pure (Json.mkObj [("indomain", toJson indom), ("agree", toJson agree), ("holds", toJson holds),
        ("model_holds", toJson mholds), ("model", encodeExcept (fun s => encodeData (.bytes s)) m)])
  | "field_struct" =>
    -- a binary field of a user subclass whose numeric type table the model does not know:
    -- the layout clauses (length, every byte outside the span untouched, blank padding) are
    -- evaluated on the observation; the bytes expected inside the span come with the request
    let f ← decodeField (← field j "field")
    let line ← decodeData (← field j "line")
    let out ← dataOrExc (← field j "out")
    let span ← decodeData (← field j "span_expected")
    let holds := match line, out, span with
      | .bytes l, some (.bytes o), .bytes sp =>
        Spec.C02.holdsFieldBin f l o && decide (Cfi.Text.slice o f.start f.stop = sp)
      | _, _, _ => false
    pure (Json.mkObj [("indomain", toJson true), ("agree", toJson true), ("holds", toJson holds),
      ("model_holds", toJson true), ("model", Json.null)])
  | "line" =>
    let fs ← decodeFields (← field j "fields")
    let vs ← decodeVals (← field j "values")
    let out ← dataOrExc (← field j "out")
    let st := decodeStorage j "storage"
    match st with
    | .text =>
      let m := writePos fs vs
      let indom := Spec.C02.lineInDomain fs vs
      let (agree, holds) := match out, m with
        | some (.str o), .ok mo => (decide (o = mo), Spec.C02.holdsLine fs vs o)
        | _, _ => (false, false)
      let mholds := match m with
        | .ok mo => Spec.C02.holdsLine fs vs mo
        | .error _ => !indom
      pure (Json.mkObj [("indomain", toJson indom), ("agree", toJson agree), ("holds", toJson holds),
        ("model_holds", toJson (mholds || !indom)), ("model", encodeExcept (fun s => encodeData (.str s)) m)])
    | .binary =>
      let m := writeBinLine fs vs
      let indom := fs.length == vs.length && Spec.C02.disjoint fs && (fs.zip vs).all fun (f, v) =>
        f.stop == f.size + f.start && Spec.C02.typeOk f.kind v &&
        (match renderBin f v with | .ok r => r.length == f.size | .error _ => false)
      let (agree, holds) := match out, m with
        | some (.bytes o), .ok mo => (decide (o = mo), Spec.C02.holdsLineBin fs o)
        | _, _ => (false, false)
      let mholds := match m with
        | .ok mo => Spec.C02.holdsLineBin fs mo
        | .error _ => !indom
      pure (Json.mkObj [("indomain", toJson indom), ("agree", toJson agree), ("holds", toJson holds),
        ("model_holds", toJson (mholds || !indom)), ("model", encodeExcept (fun s => encodeData (.bytes s)) m)])
  | "defaults" =>
    -- observed geometry of default-constructed fields: [lit size, lit start, int size, int start,
    -- flt size, flt start, flt decimals, date size, date start], format strings
    let obs ← natList (← field j "geometry")
    let ffmt ← chars (← field j "float_format")
    let fsep ← chars (← field j "float_sep")
    let dfmt ← chars (← field j "date_format")
    let holds := obs == [80, 0, 8, 0, 8, 0, 4, 16, 0] && ffmt == ['F'] && fsep == ['.'] &&
      dfmt == "%Y/%m/%d".toList
    let gen := [Cfi.Generated.literalDefaultSize, Cfi.Generated.literalDefaultStart,
      Cfi.Generated.integerDefaultSize, Cfi.Generated.integerDefaultStart, Cfi.Generated.floatDefaultSize,
      Cfi.Generated.floatDefaultStart, Cfi.Generated.floatDefaultDecimals, Cfi.Generated.dateDefaultSize,
      Cfi.Generated.dateDefaultStart]
    pure (Json.mkObj [("indomain", toJson true), ("agree", toJson (obs == gen)), ("holds", toJson holds),
      ("model_holds", toJson Spec.C02.defaultsOk), ("model", jNatList gen)])
  | m => throw s!"bad mode {m}"

end Driver.Fields
