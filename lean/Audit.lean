import Lean
/-!
`lake env lean --run Audit.lean Props.C07 Props.C08 …`

For every theorem declared in the named modules prints one JSON line
`{"module":…, "theorem":…, "axioms":[…]}`.  The check scripts require
`axioms ⊆ {propext, Classical.choice, Quot.sound}` for every line.
-/
open Lean

def isAuxName (n : Name) : Bool :=
  n.isInternal || n.components.any fun c =>
    match c with
    | .str _ s => s.startsWith "_" || s.startsWith "match_" || s.startsWith "proof_" || s == "eq_def" || s.startsWith "eq_"
    | _ => false

/-- Own traversal (independent of Lean's cached axiom extension): every constant
reachable from `c` through types and values; the axioms among them. -/
partial def collectAx (env : Environment) (c : Name) (seen : NameSet) (axs : NameSet) : NameSet × NameSet :=
  if seen.contains c then (seen, axs) else
  let seen := seen.insert c
  let go (es : List Expr) (seen axs : NameSet) : NameSet × NameSet :=
    es.foldl (fun (sa : NameSet × NameSet) e =>
      e.getUsedConstants.foldl (fun (sa : NameSet × NameSet) n => collectAx env n sa.1 sa.2) sa) (seen, axs)
  match env.find? c with
  | some (.axiomInfo v) => go [v.type] seen (axs.insert c)
  | some (.defnInfo v) => go [v.type, v.value] seen axs
  | some (.thmInfo v) => go [v.type, v.value] seen axs
  | some (.opaqueInfo v) => go [v.type, v.value] seen axs
  | some (.quotInfo _) => (seen, axs)
  | some (.ctorInfo v) => go [v.type] seen axs
  | some (.recInfo v) => go [v.type] seen axs
  | some (.inductInfo v) =>
    let (seen, axs) := go [v.type] seen axs
    v.ctors.foldl (fun (sa : NameSet × NameSet) n => collectAx env n sa.1 sa.2) (seen, axs)
  | none => (seen, axs)

/-- binder names of a type `∀ (a : A) (b : B) …, T` -/
partial def binderNames : Expr → List Name
  | .forallE n _ b _ => n :: binderNames b
  | _ => []

/-- `S.f` where `S` is a one-constructor inductive (a structure) and `f` one of the
constructor's arguments: a projection generated for a `Prop`-valued structure, not a
theorem somebody stated -/
def isProjection (env : Environment) (n : Name) : Bool :=
  match n with
  | .str p f =>
    match env.find? p with
    | some (.inductInfo v) =>
      match v.ctors with
      | [c] =>
        match env.find? c with
        | some (.ctorInfo cv) => (binderNames cv.type).contains (.mkSimple f)
        | _ => false
      | _ => false
    | _ => false
  | _ => false

unsafe def main (args : List String) : IO UInt32 := do
  initSearchPath (← findSysroot)
  let mods := args.map String.toName
  let env ← importModules (mods.toArray.map ({ module := · })) {} (loadExts := false)
  for m in mods do
    let some idx := env.getModuleIdx? m
      | IO.eprintln s!"module {m} not found"; return 1
    let md := env.header.moduleData[idx.toNat]!
    for ci in md.constants do
      match ci with
      | .thmInfo _ =>
        if !isAuxName ci.name && !isProjection env ci.name then
          let (_, ax) := collectAx env ci.name {} {}
          let axs := ax.toList.map (·.toString)
          IO.println (Json.mkObj [("module", toJson m.toString), ("theorem", toJson ci.name.toString),
            ("axioms", toJson axs)]).compress
      | _ => pure ()
  return 0
