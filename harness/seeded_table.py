"""Regenerates the seeded-change table of DESIGN.md appendix F from seeded/*/meta.json.

    python3 harness/seeded_table.py            # prints the table
    python3 harness/seeded_table.py --update   # replaces the table in DESIGN.md
"""
import glob, json, re, sys
from pathlib import Path

ROOT = Path(__file__).resolve().parent.parent


def rows():
    out = []
    for d in sorted(glob.glob(str(ROOT / "seeded" / "*"))):
        m = json.load(open(d + "/meta.json"))
        files = sorted(set(re.findall(r"^\+\+\+ b/cfinterface/(\S+)", open(d + "/patch.diff").read(), re.M)))
        caught, corr = [], []
        for k, v in sorted(m.get("detected_by", {}).items()):
            p, tier = k.split(":")
            if tier != "quick" or v["exit"] != 1:
                continue
            (corr if v.get("no_failing_input_found") else caught).append(p)
        c = ", ".join(caught) if caught else "**missed**"
        if corr:
            c += " (correspondence only: " + ", ".join(corr) + ")"
        out.append(f"| {m['id']} | {m['breaks_property']} | {', '.join(files)} | {m['needs_to_manifest']} | {c} |")
    return out


def table():
    head = ["| id | breaks | site | needs, to manifest | caught by (quick) |", "|---|---|---|---|---|"]
    return "\n".join(head + rows()) + "\n"


if __name__ == "__main__":
    t = table()
    if "--update" in sys.argv:
        p = ROOT / "DESIGN.md"
        s = p.read_text()
        i = s.index("| id | breaks | site | needs, to manifest | caught by (quick) |")
        j = s.index("Changes that were **missed at first**")
        p.write_text(s[:i] + t + "\n" + s[j:])
    else:
        print(t)
