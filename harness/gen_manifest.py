"""Writes /verif/MANIFEST.json from the table below (kept next to the checks so
the two cannot drift).  Run after adding or changing a check."""
import json
from pathlib import Path

VERIF = Path(__file__).resolve().parent.parent

# id -> (built?, technique, level text, level note, design ref)
CHECKS = {
    "C07": (
        True,
        "Lean 4 proof: heap invariant Repr preserved by every container operation (induction over histories) + differential correspondence of the executable model against RegisterData/BlockData/SectionData",
        "Theorem Props.C07.main: for every admissible history of any length the model container shows exactly the observation of the abstract list (iteration, len, first, last, all links, backward walk); Props.C07.step_preserves is the inductive step on any well-formed state. The model is tied to /repo by running every generated history (exhaustive inductive step over small states x value-equality partitions, every API history to a depth, random long histories) on the real containers and on the model and comparing all observables after every operation.",
        "Trusted: Lean kernel + 3 standard axioms; the hand-written model lean/Cfi/Container.lean (tied to the code only by the correspondence run); harness and driver. Element values are absent from the model (the repaired code decides by identity); the pinned code's value-equality variants are in Cfi/Legacy.lean with decide-d counter-examples.",
        "6/C07",
    ),
    "C08": (
        True,
        "Lean 4 proof: queries and bulk removal on the heap model equal list filter/erase on the abstract list (on top of the C07 invariant, induction over the removal loop) + differential correspondence against the three container classes",
        "Theorems Props.C08.main / removeOfType_repr / no_match_left / non_matching_kept: for every well-formed container state (hence after any history), of_type = filter isinstance, the getter = shape of the doubly filtered list and leaves the container unchanged, bulk removal leaves exactly the non-matching members in order plus possibly the first element. Tied to /repo by running exhaustive small containers (<=3-4 elements x 3 classes with a subclass edge x attribute values x requested types incl. foreign x filters) and random histories+queries on the real containers and on the model.",
        "Trusted: Lean kernel + 3 standard axioms; model lean/Cfi/Container.lean; harness element classes with properties a0..a2; isinstance/== of Python ints represented by a class table and integer equality in Spec.C08 (isSub, meetsFilter).",
        "6/C08",
    ),
    "C01": (
        True,
        "Lean 4 model of Field/Line text rendering and parsing with exact IEEE/decimal arithmetic (round, format, float(), int(), strftime/strptime) + decidable Spec.C01.holds evaluated on model and implementation + differential correspondence on structured layouts and float boundary families",
        "Spec.C01.holds states the round trip (read-back = canonical values, re-written text identical, floats in the configured notation/separator, half-unit accuracy in exact arithmetic under |x|*10^D<2^51, maximal decimals). Theorems: per-kind render/parse laws for integers, literals, dates (strptime after strftime = truncation to the format, all regex alternatives and backtracking: Proofs/DateLaw*.lean) and missing values; layout theorem (every span of a disjoint layout holds its field's rendering); Props.C01.readBack_of_inDomain (every layout/value list admitted by the decidable domain reads back to the canonical form: integers, literals, floats, dates, missing) Props.C01.main_nofloat (the whole statement, stability included, for layouts without non-missing floats) Props.C01.law_flt_F_gen (full law, stability included, for every finite double, the largest one included, in every F-notation field in which it fits, the decimals-dropping loop included (round(y,d) of a finite double never overflows for d>=0: Proofs.FloatLoop.pyRound_some_any): Proofs/Nearest.lean proves that the model's binary rounding is optimal and that round(x,d) keeps the d-decimal rounding of x, Proofs/FloatText.lean that float() of the printed text is round(x,d), Proofs/FloatLoop.lean that the value read back is written with the same number of decimals) Props.C01.main_F (read-back and stability of whole lines with such floats) and Props.C01.main_F_full (the whole of Spec.C01.holds for those lines, the dialect / half-unit accuracy / maximal-decimals clauses included: Proofs/FloatClauses.lean). Props.C01.law_flt_E / main_FE (Props/C01E.lean: the same full law and line-level read-back + stability for E-notation fields of up to twelve decimals and EVERY finite double in normal form (Props.C01.FloatFB / floatFB_all: the band-inclusive range wfB = magnitude 10^(decimals-323) or more, zero, and the deep subnormal range wfFine where round() returns its argument and the decimal grid is finer than half a subnormal step, Proofs.FloatE.sub_fine): Proofs/FloorLog10.lean proves floorLog10 exact, Proofs/FloatE.lean that printing the rounded value at its own decimal exponent reproduces the digits it was rounded to, also when rounding crosses a power of ten). Props.C01.main_FE_full: the whole of Spec.C01.holds for layouts with floats in either notation (Proofs/FloatEClauses.lean: dialect and half-unit accuracy of the E-notation text). The half-unit clause for E-notation values in the one decade 10^(decimals-323) <= |x| < 10^(decimals-322) (false at the eight K2 values: Props.C01.subnormal_E_counterexample, k2_in_band) is evaluated per case against the exact model and the real code; everything else about those values (read-back, stability, shape) is a theorem.",
        'Trusted: Lean kernel; hand-written model lean/Cfi/{Text,PyInt,Dbl,Date,Field,Line}.lean validated against CPython on every case; float stability / accuracy for all doubles is checked by correspondence only (named hypothesis RenderLaw, never an axiom).',
        "6/C01",
    ),
    "C02": (
        True,
        "Lean 4 proof of the splice theorem (any alphabet, any target line) and of the single-field write statement + exhaustive small-space correspondence (kinds x size 0-6 x start 0-6 x target length 0-14 x value widths) against Field.write / Line.write",
        'Theorems Props.C02.splice_spec (length, untouched prefix/suffix, span = value, position-wise), field_write_basic (missing values, literals, integers: full statement for every width/start/target), field_write_of_raw (floats/dates given the character shape of the rendering), Props.C02.shape_dom / field_write_dom / line_write_dom (Props/C02F.lean: that shape, the single-field statement and the whole of Spec.C02.holdsLine for every value of the decidable domain of C01, floats in either notation and dates included), field_write_bin (bytes), line_shape / line_spans and line_bin_shape / line_bin_spans (whole text and binary lines of any disjoint layout: length = furthest field end (+ newline), blank gaps, every rendering in its own span), defaults (documented default geometry = constants regenerated from the code; a changed default breaks the build). Exhaustive enumeration of the small space every run; a user sub-subclass extending the numeric type table is checked structurally (mode field_struct).',
        "Trusted: Lean kernel + standard axioms; model lean/Cfi/Field.lean tied by the correspondence; Generated.lean is regenerated from the code each run.",
        "6/C02",
    ),
    "C03": (
        True,
        "Lean 4 proof of locality / short-line / no-stale-value over all lines + exhaustive correspondence over all strings up to length 3 (4 thorough) of an adversarial alphabet and all 65536 two-byte payloads, with the model's parsers validated against CPython's own int()/float()/strptime()/strip()",
        "Theorems Props.C03: main_text/main_bin (the model returns the reference interpretation of the Python-clamped span; totality is the function's type), local_text/local_bin, prefix_irrelevant, suffix_irrelevant, short_line, empty_span_of_short, no_stale (any read sequence). The implementation is compared read by read, through one field object with failing reads interleaved.",
        "Trusted: Lean kernel; the model's parsers (int/float grammar, strptime alternatives, UTF-8) are validated on every run against the interpreter on every generated span; directive set and separator domain as listed in assumptions.",
        "6/C03",
    ),
    "C09": (
        True,
        "Lean 4 model of numpy's little-endian integer and IEEE binary16/32/64 encodings (exact nearest-even narrowing) + Spec.C09.holds + exhaustive correspondence over all int16 values and all float16 patterns every run",
        "Theorems: integer bijection for every width (decode_encode, encode_decode), widths (table regenerated from the code), Props.C09.line_main (the whole of Spec.C09.holds — record width, blank gaps, every field's bytes in its own span, canonical read-back — for every disjoint layout under the per-field binary law BinLaw), BinLaw proved for in-range integers, ASCII literals, floats (IEEE narrowing, bit-field inverse: Props/C09F.lean), dates (Props/C09D.lean: the bytes are the ASCII text of the C01 date law) and missing values; Props.C09.main_all: the whole of Spec.C09.holds for every admitted layout. BinLaw for non-ASCII literals: evaluated per case; all 65 536 float16 / int16 patterns every run.",
        "Trusted: Lean kernel; model lean/Cfi/Bin.lean compared with numpy on every case (all 2-byte patterns exhaustively, halfway cases, subnormals, overflow); little-endian byte order asserted at start-up.",
        "6/C09",
    ),
    "C11": (
        True,
        "Lean 4 proof that a delimited read is a function of its own line (no carry-over, one value per field, absent tokens None, surplus ignored) + differential correspondence on write/read/padded-read and on read sequences through one Line and through RegisterFile.read",
        "Theorems Props.C11.split_join (split after join is the identity on delimiter-free tokens, any multi-character delimiter), writeDelim_eq, read_written, main (the whole of Spec.C11.holds: written text, token-wise canonical read-back, blank padding irrelevant, no carry-over) under the per-token law TokLaw (proved for integers, literals, dates, floats and missing values: Props.C11.tokLaw_of_domain) on the sub-domain 'no character of the delimiter in a token'; Props.C11.main_dom is that statement from the decidable domain Spec.C11.inDomain, and Props.C11.main_full (Props/C11S.lean) the whole of Spec.C11.holds for EVERY input of Spec.C11.inDomain, delimiters with blanks or sharing characters with tokens included (split_snoc).",
        "Trusted: Lean kernel; model lean/Cfi/Line.lean; for multi-character delimiters the domain guard is stronger than the property's wording (no character of the delimiter in a rendering).",
        "6/C11",
    ),
    "C04": (
        True,
        "Lean 4 model of the register reading loop on a stream (peek / rewind / dispatch / delegate) + Spec.C04.expected (one element per line of splitLines, each decided by its line alone) + differential correspondence on colliding identifier pools and corrupted contents",
        "Spec.C04.holds: after the placeholder exactly one element per input line in order; class = first declared register whose identifier occurs in the leading window, else a default register holding the line verbatim; typed data = what the register's layout reads from that line alone. Theorems Props.C04 (flatten_splitLines: nothing lost or duplicated; further refinement lemmas listed in the evidence). Every case compares the real RegisterFile.read with the model's stream loop and with the per-line specification.",
        "Trusted: Lean kernel; model lean/Cfi/{Register,Files,Stream}.lean; identifiers are literal text: the infix test of the model is proved equal to the search of the literal pattern in the declarative regular-expression semantics (Props.C04.matches_is_search, classify_first_found); that Python re gives a literal pattern that meaning is observed.",
        "6/C04",
    ),
    "C05": (
        True,
        'Lean 4 proof of the file-level round trip on the model (main, skip_empty) + decidable domain and statement evaluated on model and implementation + differential correspondence on generated register files (in memory and through paths)',
        "Theorem Props.C05.main: for every register list and every element sequence inside the decidable domain Spec.C05.inDomain (the predicate the check evaluates per case), the model's write-then-read cycle returns the sequence itself and the file equality holds — composite register line, column characterisation, one line per register, dispatch to the writing type, line splitting of the written text, order and count are proved for all inputs; the per-record premise (the data-only line reads back to the data: C01) is part of the domain and decided by the model per case for float/date fields. Props.C05.skip_empty: all-None registers leave no trace. A quarter of the cases go through paths on disk with a declared encoding.",
        "Trusted: Lean kernel; model; the domain (Unambiguous identifiers, canonical fitting data) is decided by the Lean predicate Spec.C05.inDomain, discards counted in the evidence.",
        "6/C05",
    ),
    "C06": (
        True,
        'Lean 4 proof of the projection property on the model + decidable statement evaluated on model and implementation + differential correspondence on perturbed contents',
        'Theorems Props.C06.main (for every text x, W(R(x)) is a fixed point of read-then-write and the lines matching no register are the same in x and y, in order — from record-level stability of the typed records of x), recStable_of_laws (record stability from the C01 per-field laws) main_int_lit, main_regs_F and main_regs_FE (no premise about the records left for files of integer / literal / float registers, floats in F notation and, Props/C06E.lean, in E notation with up to twelve decimals and any finite value in normal form). Props.C06.main_regs_all (Props/C06D.lean) adds date fields. Records holding floats outside the ranges of the C01 float laws: the premise is evaluated per case by the exact model; the statement is evaluated on every generated text on model and implementation, in memory and through paths.',
        "Trusted: Lean kernel; model; representability and unambiguity are decided by Lean predicates.",
        "6/C06",
    ),
    "C10": (
        True,
        "Lean 4 model of Register.write/matches/read in the three storages over a stream + Spec.C10.holds (recognition, identifier columns, one line / exact byte width, canonical read-back, tell() = partial sums) + differential correspondence on streams of 1-8 mixed registers",
        "Theorems Props.C10.text_positional, text_delimited, text_mixed and binary: for every stream of registers in each storage the model's write-all / rewind / read-all run through one buffer satisfies the whole of Spec.C10.holds (one line resp. identifier width + field widths bytes, identifier columns / first token / bytes, recognised by its own type, canonical read-back, stream position after each read = end of what the write produced), under the per-field laws (proved for integers, literals, dates, floats and missing values; Props.C10.binary_nodate / binary_all: binary storage with the field law discharged from the C09 domain, dates included; Props.C10.text_positional_dom: positional text storage with the read law and the absence of line breaks discharged from the C01 domain); binary contiguity is stated up to declaration order. Spec.C10.holds is evaluated on every generated stream on the implementation and on the model.",
        'Trusted: Lean kernel; model; contiguous binary layouts (in any declaration order) and ASCII identifiers (domain).',
        "6/C10",
    ),
    "C12": (
        True,
        "Lean 4 model of the block reading loop (text and binary) with raw-storing blocks and a regex AST matched by derivatives + Spec.C12.holds (dispatch refinement, accounting, write = input) + differential correspondence",
        "Spec.C12.holds: elements = readBlockFile (first declared block whose begin pattern is found in the peeked unit, else one default line), stored raw data concatenate to the input, writing reproduces the input exactly, in text and binary storage.",
        "Trusted: Lean kernel; model; that Python re gives the rendered pattern the declarative meaning of the AST (correspondence only — the model's own matcher is proved against that meaning: Proofs/RegexLaw.lean, Cfi.Regex.search_iff, Props.C12.dispatch_first_found / dispatch_none_found); harness raw-storing block classes.",
        "6/C12",
    ),
    "C13": (
        True,
        "Lean 4 model of SectionReading (declared sections in order with stream hand-off, then leftovers) + Spec.C13.holds + exhaustive small-space and random differential correspondence",
        "Spec.C13.holds: declared sections exactly once each in declared order, each from where the previous stopped, leftovers one default section per line, raw data concatenate to the input, write reproduces it (also for content shorter than the sections expect). Theorem Props.C13.readDeclared_length.",
        "Trusted: Lean kernel; model; harness raw-storing section classes.",
        "6/C13",
    ),
    "C18": (
        True,
        "Lean 4 model of the three reading loops with explicit consumption + Spec.C18.holds (returned, element bound) decided under a deterministic step budget on the implementation + differential element count",
        "Spec.C18.holds: File.read returns and creates at most units (+declared sections) elements, units = lines (text) or bytes (binary). The harness counts append() calls and aborts at 2*(1+units+sections)+8; budget exhaustion is the failing input. Theorems Props.C18: every step consumes input and the loops end by themselves (result independent of the fuel) for register files in text storage, block files in both storages, section files, and (Props/C18B.lean: reg_bin_bound, reg_bin_fuel_independent) binary register files.",
        "Trusted: Lean kernel; model; binary register records at least one byte wide (domain).",
        "6/C18",
    ),
    "C14": (
        True,
        "Lean 4 proof that what a line writes/reads is independent of the scratch slots of shared Field objects + metamorphic correspondence: every object's observations in a random interleaved history vs. an isolated replay of its own operations on the real code",
        "World model (class-level LINE objects with slots, registers, files) with non-interference theorems Props.C14.reg_noninterference, file_noninterference, new_files_independent, write_output_local, step_frame_reg/file; slot theorems assign_overwrites, write_independent_of_slots, read_is_function_of_line; containers_independent (Proofs/ContainerFrame.lean: two containers over one store of element links — after any admissible history on one container, a container with no member in common still represents its list, stale links of elements outside both notwithstanding). The World model is run on every generated history and compared with the real classes; each object's observations in the interleaved run are compared with an isolated replay on the real code; default-constructor clauses in text and binary storage.",
        "Partial: Python aliasing (which expressions create new objects) is represented by hand in the model; the interleaving-vs-isolated comparison is impl-vs-impl and is what exercises it on the real code. Trusted: Lean kernel, harness.",
        "6/C14",
    ),
    "C15": (
        True,
        "Lean 4 proof that the code's length check + pairwise loop is exactly pointwise equality (characterisation, reflexive, symmetric, prefix never equal, foreign false) + differential correspondence on pairs of sequences and on reading the same content twice",
        "Theorems Props.C15: seqEq_iff, seqEq_pointwise, seqEq_refl, seqEq_symm, prefix_ne, expectedEq_eq_seqEq, main (the model's ==, reversed ==, !=, reflexive and foreign comparisons satisfy Spec.C15.holds for all sequences). The implementation is compared on equal / one-position / class-only / subclass / prefix / extension / foreign pairs for the three families and on double reads. Known finding K1 (NaN spans) is listed in KNOWN_FINDINGS.txt.",
        "Trusted: Lean kernel; the model's element equality = exact class and equal data (CPython's reflected-operand rule, DESIGN appendix A), compared with the code on every case.",
        "6/C15",
    ),
    "C16": (
        True,
        "Lean 4 proof of path/content and disk/memory equivalence for every codec with dec(enc s) = s, every file system and every element loop + correspondence on a real scratch directory over families x storages x 4 encodings x non-ASCII contents",
        "Theorems Props.C16: read_path_eq_content, written_file_decodes, store_other, disk_roundtrip, binary_identity. The runtime part (open() mode/encoding arguments, the path/content decision, newline handling) is observed: read(path) vs read(content), bytes on disk decoded with the declared encoding vs the in-memory output, disk round trip vs memory round trip.",
        "Partial: codecs, open() and the file system are parameters of the model; their real behaviour is observed by the harness only. Trusted: Lean kernel, Python codecs, OS.",
        "6/C16",
    ),
    "C17": (
        True,
        "Lean 4 proof over every element list and every fault position of the driver-loop model (exception identity, handle ownership and release, clean prefix) + full fault enumeration on the real code with wrappers around builtins.open and the adapter's StringIO/BytesIO",
        "Theorems Props.C17: runLoop_fault, runLoop_ok, write_fault, write_ok, ownership. Full enumeration every run: 1-8 elements x every k x {read, write} x 3 families x {path, buffer/content} x {text, binary} x 3 exception types (2784 traces) judged by Spec.C17.holds.",
        "Partial: real handle release is an OS fact observed through the closed flag of the handles; the model contains the with-protocol logic. Trusted: Lean kernel, harness wrappers.",
        "6/C17",
    ),
    "C19": (
        True,
        "Lean 4 proof that sorted/filter/last selects the greatest key <= v, is invariant under permutation of the declaration order, leaves the state unchanged when no key qualifies, and is class-local + exhaustive correspondence over all subsets and orders of a 4-key alphabet",
        "Theorems Props.C19: closest_spec, closest_none, closest_perm, greatest_unique, greatestBelow_spec, closest_eq_greatestBelow, setVersion_active, setVersion_own, setVersion_isolated (parent and siblings unaffected), trace_eq / main (every history of selections over a class hierarchy) and progTrace_eq / main_prog (every PROGRAM that also changes the tables between selections — a whole table assigned on a class, a key added / re-bound / deleted in place in the table a class sees, the component list assigned: each selection reads the table as it is when it is made; tableOps_frame: changing a table moves no active list). Exhaustive: every subset x every declaration order x 9 requests x sequences x three families on a fresh parent/child/sibling trio, observing the active list object and the types File.read actually uses.",
        "Trusted: Lean kernel + standard axioms; Python str order = List Char lexicographic order (checked by the correspondence); single-inheritance lookup model.",
        "6/C19",
    ),
    "C20": (
        True,
        "Lean 4 proof that the view is filter x sorted user properties with the framework's own excluded (for all files, types, property sets) + differential correspondence against pandas-backed _as_df incl. overwriting every cell of the frame",
        "Theorems Props.C20: customProps_eq (sorted user names, framework names excluded, for any order of getmembers), customProps_framework_only, main (Spec.C20.holds of the model's view for all inputs), view_is_a_copy. The implementation's columns, shape, every cell (null-aware) and non-aliasing are compared on generated files with mixed kinds, None anywhere, subclass and foreign types.",
        "Partial: the data frame is pandas (construction, null representation, copy semantics are observed, not modelled). Framework property list is regenerated from the code each run.",
        "6/C20",
    ),
}

ALL = [f"C{i:02d}" for i in range(1, 21)]


def main():
    checks, na = [], []
    for pid in ALL:
        ent = CHECKS.get(pid)
        if ent is None or not ent[0]:
            na.append({"property_id": pid, "reason": "check not built yet (work in progress; planned per DESIGN.md section 6)"})
            continue
        _, tech, text, note, ref = ent
        checks.append(
            {
                "property_id": pid,
                "quick_cmd": f"bin/check {pid} quick",
                "thorough_cmd": f"bin/check {pid} thorough",
                "evidence_file": f"evidence/{pid}.json",
                "replay_cmd_template": f"bin/check {pid} --replay {{path}}",
                "engine": "lean4-model+correspondence",
                "level_claimed": {"category": "proof", "text": text, "design_ref": f"DESIGN.md section {ref}"},
                "level_note": note,
                "technique": tech,
            }
        )
    man = {
        "version": 1,
        "setup_cmd": "./setup.sh",
        "hooks": {
            "guard": "CFI_VERIF",
            "enable": "no source hooks are needed: every observation point is public API; checks import /repo's working tree via PYTHONPATH",
            "baseline_off_cmd": "cd /repo && /venv/bin/python -m pytest -ra -q -p no:cacheprovider --timeout=900 --continue-on-collection-errors",
            "source_commits": [],
            "add_only": True,
        },
        "engines": [
            {
                "name": "lean4-model+correspondence",
                "path": "lean/ (model, specs, proofs, driver) + harness/ (correspondence, oracle, search)",
                "serves_properties": [c["property_id"] for c in checks],
                "kind_free_text": "Lean 4 theorems about a hand-written executable model; model tied to the code on every run by regenerated constants and a differential correspondence check; Spec.Cxx.holds evaluated on implementation output as the failing-input oracle",
            }
        ],
        "checks": checks,
        "not_applicable": na,
        "notes": "See DESIGN.md. Genuine defects of the pinned tree repaired by fix: commits are listed in KNOWN_FINDINGS.txt.",
    }
    (VERIF / "MANIFEST.json").write_text(json.dumps(man, indent=1) + "\n")
    print(f"MANIFEST.json: {len(checks)} checks, {len(na)} not yet claimed")


if __name__ == "__main__":
    main()
