"""Writes /verif/MANIFEST.json from the table below (kept next to the checks so
the two cannot drift).  Run after adding or changing a check."""
import json
from pathlib import Path

VERIF = Path(__file__).resolve().parent.parent

# id -> (built?, technique, level text, level note, design ref)
CHECKS = {
    "C07": (
        True,
        "Lean 4 proof: heap invariant Repr preserved by every container operation (induction over histories) + differential correspondence of the executable model against RegisterData/BlockData/SectionData",
        "Theorem Props.C07.main: for every admissible history of any length the model container shows exactly the observation of the abstract list (iteration, len, first, last, all links, backward walk); Props.C07.step_preserves is the inductive step on any well-formed state. The model is tied to /repo by running every generated history (exhaustive inductive step over small states x value-equality partitions, every API history to a depth, random long histories) on the real containers and on the model and comparing all observables after every operation.",
        "Trusted: Lean kernel + 3 standard axioms; the hand-written model lean/Cfi/Container.lean (tied to the code only by the correspondence run); harness and driver. Element values are absent from the model (the repaired code decides by identity); the pinned code's value-equality variants are in Cfi/Legacy.lean with decide-d counter-examples.",
        "6/C07",
    ),
    "C08": (
        True,
        "Lean 4 proof: queries and bulk removal on the heap model equal list filter/erase on the abstract list (on top of the C07 invariant, induction over the removal loop) + differential correspondence against the three container classes",
        "Theorems Props.C08.main / removeOfType_repr / no_match_left / non_matching_kept: for every well-formed container state (hence after any history), of_type = filter isinstance, the getter = shape of the doubly filtered list and leaves the container unchanged, bulk removal leaves exactly the non-matching members in order plus possibly the first element. Tied to /repo by running exhaustive small containers (<=3-4 elements x 3 classes with a subclass edge x attribute values x requested types incl. foreign x filters) and random histories+queries on the real containers and on the model.",
        "Trusted: Lean kernel + 3 standard axioms; model lean/Cfi/Container.lean; harness element classes with properties a0..a2; isinstance/== of Python ints represented by a class table and integer equality in Spec.C08 (isSub, meetsFilter).",
        "6/C08",
    ),
}

ALL = [f"C{i:02d}" for i in range(1, 21)]


def main():
    checks, na = [], []
    for pid in ALL:
        ent = CHECKS.get(pid)
        if ent is None or not ent[0]:
            na.append({"property_id": pid, "reason": "check not built yet (work in progress; planned per DESIGN.md section 6)"})
            continue
        _, tech, text, note, ref = ent
        checks.append(
            {
                "property_id": pid,
                "quick_cmd": f"bin/check {pid} quick",
                "thorough_cmd": f"bin/check {pid} thorough",
                "evidence_file": f"evidence/{pid}.json",
                "replay_cmd_template": f"bin/check {pid} --replay {{path}}",
                "engine": "lean4-model+correspondence",
                "level_claimed": {"category": "proof", "text": text, "design_ref": f"DESIGN.md section {ref}"},
                "level_note": note,
                "technique": tech,
            }
        )
    man = {
        "version": 1,
        "setup_cmd": "./setup.sh",
        "hooks": {
            "guard": "CFI_VERIF",
            "enable": "no source hooks are needed: every observation point is public API; checks import /repo's working tree via PYTHONPATH",
            "baseline_off_cmd": "cd /repo && /venv/bin/python -m pytest -ra -q -p no:cacheprovider --timeout=900 --continue-on-collection-errors",
            "source_commits": [],
            "add_only": True,
        },
        "engines": [
            {
                "name": "lean4-model+correspondence",
                "path": "lean/ (model, specs, proofs, driver) + harness/ (correspondence, oracle, search)",
                "serves_properties": [c["property_id"] for c in checks],
                "kind_free_text": "Lean 4 theorems about a hand-written executable model; model tied to the code on every run by regenerated constants and a differential correspondence check; Spec.Cxx.holds evaluated on implementation output as the failing-input oracle",
            }
        ],
        "checks": checks,
        "not_applicable": na,
        "notes": "See DESIGN.md. Genuine defects of the pinned tree repaired by fix: commits are listed in KNOWN_FINDINGS.txt.",
    }
    (VERIF / "MANIFEST.json").write_text(json.dumps(man, indent=1) + "\n")
    print(f"MANIFEST.json: {len(checks)} checks, {len(na)} not yet claimed")


if __name__ == "__main__":
    main()
