"""C17 — faults propagate, handles are released, partial output is a clean prefix."""
from __future__ import annotations

import builtins
import gc
import io
import json
import os
import shutil
import tempfile
from pathlib import Path

import codec

PROP = "C17"
LEAN_MODULES = ["Props.C17"]
RULE = (
    "FULL ENUMERATION: files of 1-8 elements x every fault position k (and no fault) x {read, write} x file "
    "families {register, block, section} x {fresh path, path that already holds a longer earlier output, caller buffer (in-memory and a real file object opened by the caller) / content} x storage {text, binary} x exception "
    "types {ValueError, KeyError, TypeError, custom Exception subclasses incl. one derived from StopIteration, one from TypeError and one with a "
    "non-trivial constructor}, plus nineteen further builtin classes (NotImplementedError and a subclass, OSError, EOFError, AttributeError, ...) on a thinner grid of positions; on writes also elements that keep what they hold in a slot of their own (the inherited data slot stays None); on writes to a caller buffer also a buffer of the OTHER kind than the file's storage (a byte buffer / a file opened 'wb' under text storage, a text buffer / a file opened 'w' under binary storage), where the first element whose own write call is refused by the buffer is the failing element (position and exception recorded inside the harness element), with and without an injected fault; every caller buffer is looked at after the call has returned, the caught exception has been let go and a garbage collection has run, as a caller that goes on using its buffer finds it; on a thinner grid also files in which ONE element (at or before the failing position), while it is being written / read, itself performs ANOTHER complete File operation of the framework through the public API (a write or a read of a companion file of any family and either storage, to / from a path or a buffer of its own, before or after its own output; at the failing position the fault may be raised from inside that inner operation) — every handle of either operation must be closed, the companion output must be the inner operation's clean prefix, and the outer expectations are the same as without the inner operation. The k-th element's read/write raises a specific "
    "exception instance. Observed with a harness-side wrapper around builtins.open (and around the StringIO/BytesIO "
    "the reading adapter creates): the exception object reaching the caller (identity), the closed flag of every "
    "handle the framework opened, the caller buffer's closed flag / tell() / contents, the file contents on disk "
    "after a failed write. Judged by Spec.C17.holds; the Lean theorems (Props.C17) prove the same statement for "
    "every element list and every k on the model of the driver loop. non-trivial = a fault is injected; distinct by "
    "full case."
)
ASSUMPTIONS = [
    "real handle release is an OS/runtime fact: it is observed through the closed flag of the objects returned by open() / created by the adapter, not modelled",
    "elements are harness elements that write one known chunk / consume one line or byte each",
]
TRUSTED = ["the harness wrappers around builtins.open and the adapter's StringIO/BytesIO"]
NOT_THEOREMS = ['release of real OS handles: observed through the closed flag']
EXHAUSTIVE = {"quick": True, "thorough": True}


class CustomFault(Exception):
    pass


class CustomStop(StopIteration):
    """a custom Exception subclass with an ancestry that iterator / generator machinery treats specially"""


class CustomWithArgs(Exception):
    def __init__(self, a, b=None):
        super().__init__(a)
        self.b = b


class CustomTypeError(TypeError):
    """a fault of the TypeError family (what a wrongly typed forwarded option produces inside an element)"""


class CustomValueError(ValueError):
    """a fault of the ValueError family — the class the field layer itself catches when it READS (an
    unparsable span is a missing value); raised while an element is WRITTEN it is a fault like any other"""


class CustomNotImplemented(NotImplementedError):
    """what a read-only element (one that implements read() only) raises from write()"""


# further builtin exception classes, used on a thinner grid of positions (a writer / reader loop that
# catches one particular class "for robustness" swallows the fault or goes on after it)
MORE_EXC = {"NotImplementedError": NotImplementedError, "CustomNotImplemented": CustomNotImplemented, "OSError": OSError,
            "FileNotFoundError": FileNotFoundError, "EOFError": EOFError, "AttributeError": AttributeError,
            "IndexError": IndexError, "LookupError": LookupError, "AssertionError": AssertionError,
            "UnicodeError": UnicodeError, "RuntimeError": RuntimeError, "RecursionError": RecursionError,
            "ZeroDivisionError": ZeroDivisionError, "OverflowError": OverflowError, "MemoryError": MemoryError,
            "BufferError": BufferError, "NameError": NameError, "StopAsyncIteration": StopAsyncIteration,
            "Exception": Exception, "CustomValueError": CustomValueError}

EXC = {"ValueError": ValueError, "KeyError": KeyError, "Custom": CustomFault, "CustomStop": CustomStop, "CustomWithArgs": CustomWithArgs,
       "TypeError": TypeError, "CustomTypeError": CustomTypeError}


def chunk_of(i, binary, field_fault=False):
    s = f"element;{i}\n" if field_fault else f"element-{i}\n"
    return s.encode() if binary else s


def make_field_fault_family(k, exc_obj, direction):
    """register family, text storage, a LINE declared with a delimiter, and the fault raised from
    INSIDE one of the register's fields (a user Field subclass): the element's own read/write are
    the framework's"""
    from cfinterface.components.defaultregister import DefaultRegister as Dflt
    from cfinterface.components.integerfield import IntegerField
    from cfinterface.components.line import Line
    from cfinterface.components.register import Register
    from cfinterface.data.registerdata import RegisterData as Data
    from cfinterface.files.registerfile import RegisterFile

    class FaultInt(IntegerField):
        def _textual_write(self):
            if direction == "write" and self.value == k:
                raise exc_obj
            return super()._textual_write()

        def _textual_read(self, line):
            v = super()._textual_read(line)
            if direction == "read" and v == k:
                raise exc_obj
            return v

    E = type("E", (Register,), {"IDENTIFIER": "element", "IDENTIFIER_DIGITS": 7, "LINE": Line([FaultInt(3, 8)], delimiter=";"), "__slots__": []})
    F = type("F", (RegisterFile,), {"REGISTERS": [E], "STORAGE": "TEXT", "__slots__": []})
    return E, F, Data, Dflt


def make_family(fam, binary, k, exc_obj, direction, iter_read=False, own_slot=False, first_raise=None):
    """element classes whose read/write handles one chunk, the k-th call raising exc_obj;
    with `iter_read` the failing element first consumes a line by ITERATING the file
    (`next(file)`), which is how a read-to-the-end element loops over its lines"""
    counter = {"n": 0}

    def do_write(self, file, *a, **kw):
        # with `own_slot` the element keeps what it holds in a slot of its own and leaves the inherited
        # `data` slot None: it is written (and may fail) like any other element
        i = self._own if own_slot else self.data
        if i == k and direction == "write":
            if first_raise is not None and not first_raise:
                first_raise.append((i, exc_obj))
            raise exc_obj
        if first_raise is None:
            file.write(chunk_of(i, binary))
        else:
            # the element notes the first exception its own write call meets (a destination that refuses the chunk)
            try:
                file.write(chunk_of(i, binary))
            except BaseException as e:  # noqa
                if not first_raise:
                    first_raise.append((i, e))
                raise
        return True

    def do_read(self, file, *a, **kw):
        i = counter["n"]
        counter["n"] += 1
        if i == k and direction == "read":
            if iter_read:
                try:
                    next(iter(file))
                except StopIteration:
                    pass
            raise exc_obj
        self.data = file.readline()
        return True

    ns = {"read": do_read, "write": do_write, "__eq__": lambda s, o: isinstance(o, s.__class__) and s.data == o.data, "__hash__": None, "__slots__": ["_own"] if own_slot else []}
    st = "BINARY" if binary else "TEXT"
    if fam == "register":
        from cfinterface.components.defaultregister import DefaultRegister as Dflt
        from cfinterface.components.register import Register
        from cfinterface.data.registerdata import RegisterData as Data
        from cfinterface.files.registerfile import RegisterFile

        E = type("E", (Register,), dict(ns, IDENTIFIER=b"element" if False else "element", IDENTIFIER_DIGITS=7))
        F = type("F", (RegisterFile,), {"REGISTERS": [E], "STORAGE": st, "__slots__": []})
    elif fam == "block":
        from cfinterface.components.block import Block
        from cfinterface.components.defaultblock import DefaultBlock as Dflt
        from cfinterface.data.blockdata import BlockData as Data
        from cfinterface.files.blockfile import BlockFile

        E = type("E", (Block,), dict(ns, BEGIN_PATTERN=b"e" if binary else "element", END_PATTERN=b"" if binary else ""))
        F = type("F", (BlockFile,), {"BLOCKS": [E], "STORAGE": st, "__slots__": []})
    else:
        from cfinterface.components.defaultsection import DefaultSection as Dflt
        from cfinterface.components.section import Section
        from cfinterface.data.sectiondata import SectionData as Data
        from cfinterface.files.sectionfile import SectionFile

        E = type("E", (Section,), ns)
        F = type("F", (SectionFile,), {"SECTIONS": [E] * 8, "STORAGE": st, "__slots__": []})
    return E, F, Data, Dflt


def install_nested(E, spec, d, k, exc_obj, direction, log):
    """element number spec['at'] of the observed file, while it is being written / read, performs another
    complete File operation of the framework (public API): a write or a read of a companion file of family
    spec['family'] / storage spec['binary'] with spec['m'] elements, to / from a path or a buffer of its own,
    before or after its own output. With spec['fault_at'] (only at the failing position) the injected
    exception is raised by an element of the INNER operation. `log` receives one entry per inner operation
    performed: a callable that says, after the observed call is over, whether what the inner operation
    left behind is right (None) or what is wrong with it (a string)."""
    j, op, fam2, bin2, m = spec["at"], spec["op"], spec["family"], bool(spec["binary"]), spec["m"]
    ki = spec.get("fault_at")
    to_path = spec.get("where", "path") == "path"
    E2, F2, Data2, Dflt2 = make_family(fam2, bin2, ki, exc_obj if ki is not None else None, op)
    content = (b"" if bin2 else "").join(chunk_of(i, bin2) for i in range(m))
    want = (b"" if bin2 else "").join(chunk_of(i, bin2) for i in range(m if ki is None else ki))
    comp = os.path.join(d, "companion.dat")
    if op == "read" and to_path:
        with open(comp, "wb") as fh:
            fh.write(content if bin2 else content.encode("utf-8"))

    def inner():
        if op == "write":
            data = Data2(Dflt2(data=b"" if (bin2 and fam2 != "register") else ""))
            for i in range(m):
                data.append(E2(data=i))
            f2 = F2(data=data)
            if to_path:
                def verdict():
                    with open(comp, "rb") as fh:
                        disk = fh.read()
                    return None if disk == (want if bin2 else want.encode("utf-8")) else "the companion file is not exactly the inner elements before the failing one"
                log.append(verdict)
                f2.write(comp)
            else:
                own = io.BytesIO() if bin2 else io.StringIO()

                def verdict():
                    if own.closed:
                        return "the buffer handed to the inner write was closed"
                    if own.tell() != len(want):
                        return "the buffer handed to the inner write is not positioned at the end of the written data"
                    return None if own.getvalue() == want else "the inner write's buffer is not exactly the inner elements before the failing one"
                log.append(verdict)
                f2.write(own)
        else:
            if fam2 == "section":
                F2.SECTIONS = [E2] * m
            log.append(lambda: None)
            F2.read(comp if to_path else content, *((7,) if fam2 == "register" and bin2 else ()))

    before = bool(spec.get("before")) or j == k
    count = {"n": 0}
    attr = "write" if direction == "write" else "read"
    orig = getattr(E, attr)

    def wrapped(self, file, *a, **kw):
        if direction == "write":
            i = self.data
        else:
            i = count["n"]
            count["n"] += 1
        if i != j:
            return orig(self, file, *a, **kw)
        if before:
            inner()
            return orig(self, file, *a, **kw)
        r = orig(self, file, *a, **kw)
        inner()
        return r

    setattr(E, attr, wrapped)


class Recorder:
    """records every object returned by builtins.open and every StringIO/BytesIO the reading adapter creates"""

    def __init__(self):
        self.handles = []

    def __enter__(self):
        import cfinterface.adapters.reading.repository as rr

        self._open = builtins.open
        self._sio, self._bio = rr.StringIO, rr.BytesIO
        rec = self

        def rec_open(*a, **kw):
            h = rec._open(*a, **kw)
            rec.handles.append(h)
            return h

        def rec_sio(*a, **kw):
            h = io.StringIO(*a, **kw)
            rec.handles.append(h)
            return h

        def rec_bio(*a, **kw):
            h = io.BytesIO(*a, **kw)
            rec.handles.append(h)
            return h

        builtins.open = rec_open
        rr.StringIO, rr.BytesIO = rec_sio, rec_bio
        self._rr = rr
        return self

    def __exit__(self, *a):
        builtins.open = self._open
        self._rr.StringIO, self._rr.BytesIO = self._sio, self._bio


def _classify_and_release(raised, exc_obj, k, out, collect=False):
    """which exception reached the caller; then the caller lets it go (the traceback, and with it the
    frames of the call, are dropped) and a garbage collection runs"""
    if raised is None:
        out["raised_at"] = None
    elif raised is exc_obj:
        out["raised_at"] = k
    else:
        out["raised_at"] = 9999
        out["other_exception"] = f"{type(raised).__name__}: {raised}"
    seen = set()
    for e in (raised, exc_obj):
        while e is not None and id(e) not in seen:
            seen.add(id(e))
            e.__traceback__ = None
            e = e.__context__
    del raised, e
    if collect:
        gc.collect(1)
    return None


def run_impl(case):
    fam, binary, n, k, direction, where = case["family"], case["binary"], case["n"], case["k"], case["direction"], case["where"]
    exc_obj = {**EXC, **MORE_EXC}[case["exc"]]("injected fault") if k is not None else None
    d = tempfile.mkdtemp(prefix="cfi-c17-")
    # a caller buffer of the other kind than the storage (write direction only): the failing element is the
    # first one whose write raises, be it the injected fault or the buffer refusing the chunk
    other_kind = bool(case.get("other_kind")) and direction == "write" and where in ("buffer", "callerfile") and not case.get("field_fault")
    first_raise = [] if other_kind else None
    try:
        # arguments the caller forwards through File.read / File.write down to every element
        # (block and section families; the register family's positional argument is its peek window)
        fwd_a, fwd_k = (), {}
        if case.get("forward") and fam != "register":
            fwd_a, fwd_k = ("forwarded",), {"option": 4}
        ff = bool(case.get("field_fault"))
        if ff:
            E, F, Data, Dflt = make_field_fault_family(k, exc_obj, direction)
        else:
            E, F, Data, Dflt = make_family(fam, binary, k, exc_obj, direction, case.get("iter_read", False), bool(case.get("own_slot")), first_raise)
        expected_prefix = (b"" if binary else "").join(chunk_of(i, binary, ff) for i in range(n if k is None else k))
        raised = None
        out = {"buffer_closed": False, "buffer_at_end": True, "output_is_prefix": True}
        nested_log = []
        if case.get("nested"):
            install_nested(E, case["nested"], d, k, exc_obj, direction, nested_log)
        if direction == "write":
            # (buffer of the other kind: the container starts with the first harness element, so that every
            # element written is one that records what its write call meets)
            data = None if other_kind else Data(Dflt(data=b"" if (binary and fam != "register") else ""))
            for i in range(n):
                if data is None:
                    data = Data(E(data=i))
                elif case.get("own_slot"):
                    e = E()
                    e._own = i
                    data.append(e)
                else:
                    data.append(E(data=[i]) if ff else E(data=i))
            f = F(data=data)
            dest_path = os.path.join(d, "out.dat")
            if where == "existingpath":
                # the destination already holds a longer, earlier output (read - edit - save again)
                full = (b"" if binary else "").join(chunk_of(i, binary, ff) for i in range(n + 3))
                with open(dest_path, "wb") as fh:
                    fh.write((full if binary else full.encode("utf-8")) + b"# stale tail of an earlier save\n")
            buf_binary = (not binary) if other_kind else binary
            if where == "callerfile":
                # a real file object opened (and owned) by the caller, before the recorder starts
                buf = open(os.path.join(d, "caller.dat"), "wb" if buf_binary else "w", **({} if buf_binary else {"encoding": "utf-8", "newline": ""}))
            else:
                buf = io.BytesIO() if buf_binary else io.StringIO()
            with Recorder() as rec:
                try:
                    f.write(dest_path if where in ("path", "existingpath") else buf, *fwd_a, **fwd_k)
                except BaseException as e:  # noqa
                    raised = e
            if other_kind:
                # the failing position is the one the elements themselves recorded
                k = first_raise[0][0] if first_raise else None
                exc_obj = first_raise[0][1] if first_raise else None
                out["element_raised_at"] = k
                expected_prefix = (b"" if binary else "").join(chunk_of(i, binary, ff) for i in range(n if k is None else k))
                # what a buffer of the other kind holds / counts is the encoded (decoded) form of the same output
                expected_prefix = expected_prefix.decode("utf-8") if binary else expected_prefix.encode("utf-8")
            raised = _classify_and_release(raised, exc_obj, k, out, collect=where in ("buffer", "callerfile"))
            if where in ("path", "existingpath"):
                with open(dest_path, "rb") as fh:
                    disk = fh.read()
                want = expected_prefix if binary else expected_prefix.encode("utf-8")
                out["output_is_prefix"] = disk == want
            elif where == "callerfile":
                out["buffer_closed"] = bool(buf.closed)
                if not buf.closed:
                    out["buffer_at_end"] = buf.tell() == len(expected_prefix)
                    buf.close()
                with open(os.path.join(d, "caller.dat"), "rb") as fh:
                    disk = fh.read()
                out["output_is_prefix"] = disk == (expected_prefix if isinstance(expected_prefix, bytes) else expected_prefix.encode("utf-8"))
            else:
                out["buffer_closed"] = bool(buf.closed)
                if not buf.closed:
                    out["buffer_at_end"] = buf.tell() == len(expected_prefix)
                    out["output_is_prefix"] = buf.getvalue() == expected_prefix
        else:
            content = (b"" if binary else "").join(chunk_of(i, binary, ff) for i in range(n))
            if fam == "section":
                F.SECTIONS = [E] * n
            src = content
            if where == "path":
                src = os.path.join(d, "in.dat")
                with open(src, "wb") as fh:
                    fh.write(content if binary else content.encode("utf-8"))
            extra = (7,) if fam == "register" and binary else ()
            with Recorder() as rec:
                try:
                    F.read(src, *extra, *fwd_a, **fwd_k)
                except BaseException as e:  # noqa
                    raised = e
        out["open_handles"] = sum(1 for h in rec.handles if not h.closed)
        out["handles_seen"] = len(rec.handles)
        if "raised_at" not in out:
            _classify_and_release(raised, exc_obj, k, out)
        if case.get("nested"):
            # the inner operation is an operation of the framework like the observed one: what it wrote is
            # its own clean prefix, a buffer handed to it stays open and positioned at the end
            out["nested_runs"] = len(nested_log)
            wrong = [w for w in (v() for v in nested_log) if w]
            if wrong:
                out["nested_wrong"] = wrong
                out["output_is_prefix"] = False
        return out
    except Exception as e:
        return codec.enc_exc(e)
    finally:
        shutil.rmtree(d, ignore_errors=True)


def _k_of(case, obs):
    """the failing position: the injected one, or (caller buffer of the other kind) the one the elements recorded"""
    return obs["element_raised_at"] if "element_raised_at" in obs else case["k"]


def _nested_text(case):
    sp = case.get("nested")
    if not sp:
        return ""
    return (f", element {sp['at']} performing a {sp['op']} of a {'binary' if sp['binary'] else 'text'} {sp['family']} file of {sp['m']} elements "
            f"({'a path' if sp.get('where', 'path') == 'path' else 'a buffer of its own'}) {'before' if sp.get('before') or sp['at'] == case['k'] else 'after'} its own {'output' if case['direction'] == 'write' else 'input'}"
            + (f", the fault raised by element {sp['fault_at']} of that inner operation" if sp.get("fault_at") is not None else ""))


def request(case, obs):
    if "harness_exc" in obs:
        obs = {"exc": "harness"}
    return {"op": "c17", "k": _k_of(case, obs), "obs": obs}


def judge(case, obs, resp):
    if "error" in resp:
        return {"status": "error", "why": resp["error"]}
    if "harness_exc" in obs:
        return {"status": "error", "why": f"harness: {obs['harness_exc']} {obs.get('msg')}"}
    if "exc" in obs:
        return {"status": "error", "why": f"harness raised {obs['exc']}: {obs.get('msg')}"}
    if not resp["holds"]:
        bad = []
        kk = _k_of(case, obs)
        if obs["raised_at"] != kk:
            bad.append(f"exception reaching the caller: {obs.get('other_exception', obs['raised_at'])} (injected at {case['k']}" + (f", first element to raise: {kk}" if kk != case["k"] else "") + ")")
        if obs["open_handles"]:
            bad.append(f"{obs['open_handles']} framework handle(s) left open")
        if obs["buffer_closed"]:
            bad.append("caller buffer was closed")
        if not obs["buffer_at_end"]:
            bad.append("caller buffer not positioned at the end of the written data")
        if obs.get("nested_wrong"):
            bad.extend(obs["nested_wrong"])
        elif not obs["output_is_prefix"]:
            bad.append("output is not exactly the elements before the failing one")
        return {"status": "oracle", "why": f"{case['family']} {case['direction']} {'binary' if case['binary'] else 'text'} {case['where']}{' of the other kind than the storage (' + ('text' if case['binary'] else 'byte') + ' buffer)' if case.get('other_kind') else ''} n={case['n']} k={case['k']}{_nested_text(case)}: " + "; ".join(bad) + (" (looked at after the call returned, the exception was let go and a garbage collection ran)" if obs["buffer_closed"] else "")}
    if case["where"] in ("path", "existingpath") and obs.get("handles_seen", 0) == 0:
        return {"status": "error", "why": "no handle was recorded for a path source/destination (harness wrapper not effective)"}
    if case.get("nested") and obs.get("nested_runs") != 1:
        return {"status": "error", "why": f"the inner operation was performed {obs.get('nested_runs')} times instead of once (harness element not effective)"}
    return {"status": "ok", "why": ""}


def nontrivial(case):
    return case["k"] is not None


def features(case, obs):
    return (["other_kind"] if case.get("other_kind") else []) + ([f"nested={case['nested']['op']}"] if case.get("nested") else []) + [f"family={case['family']}", f"direction={case['direction']}", "binary" if case["binary"] else "text", f"where={case['where']}", f"exc={case['exc']}", "fault" if case["k"] is not None else "no_fault", f"n={case['n']}"]


def signature(rec):
    c = rec["case"]
    return f"{c['family']}{c['direction']}{c['where']}{c['binary']}"


def matches_known(trigger, case):
    return False


def snippet(case):
    return f"""import sys; sys.path.insert(0, '/verif/harness'); sys.path.insert(0, '/repo')
from props import c17
case = {json.dumps(case)}
print(c17.run_impl(case))
"""


def all_cases():
    for fam in ("register", "block", "section"):
        for binary in (False, True):
            for direction in ("write", "read"):
                for where in ("path", "buffer") + (("callerfile", "existingpath") if direction == "write" else ()):
                    for n in range(1, 9):
                        for k in [None] + list(range(n)):
                            for exc in EXC:
                                if k is None and exc != "ValueError":
                                    continue
                                yield {"family": fam, "binary": binary, "direction": direction, "where": where, "n": n, "k": k, "exc": exc}
                                if fam != "register" and (k is None or exc in ("TypeError", "CustomTypeError", "ValueError")) and where in ("path", "buffer"):
                                    yield {"family": fam, "binary": binary, "direction": direction, "where": where, "n": n, "k": k, "exc": exc, "forward": True}
                                if fam == "register" and not binary and k is not None and exc in ("KeyError", "Custom") and where in ("path", "buffer"):
                                    yield {"family": fam, "binary": binary, "direction": direction, "where": where, "n": n, "k": k, "exc": exc, "field_fault": True}
                                if fam == "register" and not binary and k is not None and exc == "ValueError" and direction == "write" and where in ("path", "buffer"):
                                    # a ValueError (or a subclass) raised from inside a field while the element is WRITTEN
                                    yield {"family": fam, "binary": binary, "direction": direction, "where": where, "n": n, "k": k, "exc": "ValueError", "field_fault": True}
                                    yield {"family": fam, "binary": binary, "direction": direction, "where": where, "n": n, "k": k, "exc": "CustomValueError", "field_fault": True}
                                if direction == "write" and where in ("path", "buffer") and exc in ("ValueError", "Custom") and (k is None or k % 2 == 0):
                                    yield {"family": fam, "binary": binary, "direction": direction, "where": where, "n": n, "k": k, "exc": exc, "own_slot": True}
                                if direction == "write" and where in ("buffer", "callerfile") and exc in ("ValueError", "Custom"):
                                    # a caller buffer of the other kind than the storage
                                    yield {"family": fam, "binary": binary, "direction": direction, "where": where, "n": n, "k": k, "exc": exc, "other_kind": True}
                                if direction == "read" and k is not None and exc in ("ValueError", "Custom"):
                                    yield {"family": fam, "binary": binary, "direction": direction, "where": where, "n": n, "k": k, "exc": exc, "iter_read": True}
                    for n, k in ((1, 0), (3, 0), (3, 1), (4, 3), (8, 5)):
                        for exc in MORE_EXC:
                            yield {"family": fam, "binary": binary, "direction": direction, "where": where, "n": n, "k": k, "exc": exc}


def nested_cases():
    """files in which one element performs another complete File operation while it is written / read;
    yielded after the plain enumeration; the choices of the inner operation come from a generator of
    their own, seeded by the case"""
    import random

    for fam in ("register", "block", "section"):
        for binary in (False, True):
            for direction in ("write", "read"):
                for where in ("path", "buffer") + (("callerfile", "existingpath") if direction == "write" else ()):
                    for n in (1, 2, 3, 4, 6, 8):
                        for k in [None] + list(range(n)):
                            last = n - 1 if k is None else k
                            for j in sorted({0, last // 2, max(last - 1, 0), last}):
                                r = random.Random(f"c17-nested/{fam}/{binary}/{direction}/{where}/{n}/{k}/{j}")
                                exc = r.choice(["ValueError", "KeyError", "Custom", "CustomWithArgs"]) if k is not None else "ValueError"
                                # the inner operation: mostly of the same direction and to / from a path (both operations own a handle)
                                op = direction if r.random() < 0.7 else ("read" if direction == "write" else "write")
                                m = r.choice([1, 2, 3])
                                sp = {"at": j, "op": op, "family": r.choice(["register", "block", "section"]),
                                      "binary": binary if r.random() < 0.6 else not binary, "m": m,
                                      "where": "path" if r.random() < 0.75 else "buffer", "before": r.random() < 0.4}
                                if j == k and r.random() < 0.5:
                                    sp["fault_at"] = r.randrange(m)
                                yield {"family": fam, "binary": binary, "direction": direction, "where": where, "n": n, "k": k, "exc": exc, "nested": sp}


def corpus_cases():
    d = Path(__file__).resolve().parent.parent.parent / "corpus" / PROP
    out = []
    if d.exists():
        for f in sorted(d.glob("*.json")):
            j = json.loads(f.read_text())
            out.append(j["case"] if "case" in j else j)
    return out


def chunks(tier, seed):
    return [{"kind": "corpus"}] + [{"kind": "all", "part": p, "of": 16} for p in range(16)]


def cases_of(chunk):
    if chunk["kind"] == "corpus":
        yield from corpus_cases()
    else:
        import itertools

        for i, c in enumerate(itertools.chain(all_cases(), nested_cases())):
            if i % chunk["of"] == chunk["part"]:
                yield c


def shrinks(case):
    sp = case.get("nested")
    if sp:
        # the inner operation stays inside the file: only elements after it are dropped; the inner file gets smaller
        if sp["m"] > 1 and (sp.get("fault_at") is None or sp["fault_at"] < sp["m"] - 1):
            yield {**case, "nested": {**sp, "m": sp["m"] - 1}}
        if case["n"] - 1 > max(sp["at"], -1 if case["k"] is None else case["k"]):
            yield {**case, "n": case["n"] - 1}
        return
    if case["n"] > 1 and (case["k"] is None or case["k"] < case["n"] - 1):
        yield {**case, "n": case["n"] - 1}
    if case["k"] not in (None, 0):
        yield {**case, "k": case["k"] - 1, "n": max(case["n"] - 1, case["k"])}
