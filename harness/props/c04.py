"""C04 — register file: every line becomes exactly one element, first matching type wins."""
from __future__ import annotations

import json
import random
import zlib
from pathlib import Path

import codec
import filesupport as fsup

PROP = "C04"
LEAN_MODULES = ["Props.C04"]
RULE = (
    "case = (1-4 register types: identifiers from a pool built to collide ('AB','ABC','B',' A','', ...), identifier "
    "windows 0-6, declaration order permuted, positional or delimited layouts of mixed kinds; text content assembled "
    "from canonical lines, truncated / extended / corrupted lines, identifiers shifted just inside / outside the "
    "window, blank lines, garbage, with and without final newline). RegisterFile.read(content) on the real code; "
    "observed: class index and data of every element. Compared with the model's stream loop and judged by "
    "Spec.C04.holds (placeholder + one element per line of splitLines(content), each decided by its line alone). "
    "About a third of the cases carry a declaration history: the file class is first created with an EARLIER declaration "
    "(a permuted subset of the same types, possibly empty), read once, then its REGISTERS is re-assigned (on the class "
    "that is read or on the class that declared it) or edited in place to the case's declaration, and only then the "
    "observed read is made — the expectation is the model's for the declaration in force at the observed read alone. "
    "A further eighth of the cases reach their declaration by GROWING / EDITING the declared list after the earlier read, one "
    "elementary list operation at a time on the list object the class holds (remove / del, insert, append, extend, +=), or by "
    "declaring a subclass afterwards whose REGISTERS is built from the read class's (before + Parent.REGISTERS + after) and "
    "reading through that subclass; the operations are the ones that turn the earlier declaration into the case's. "
    "non-trivial = content has at least 2 lines and at least one line matches a register; distinct by full case."
)
ASSUMPTIONS = [
    "identifiers are literal text over [A-Za-z0-9 _-] (no regex metacharacters), so re.search is an infix test",
    "contents do not name an existing file (checks run in an empty scratch directory)",
]
TRUSTED = []
EXHAUSTIVE = {"quick": False, "thorough": False}
IDENT_POOL = ["AB", "ABC", "B", " A", "", "A", "BC", "X1", "ab", "A B", "--", "Z"]


def text_linesize(case):
    """`linesize` is forwarded through *args down to the reader; in text storage it is a legal no-op
    (the textual adapter reads whole lines whatever it is)"""
    return (case["linesize"],) if case.get("linesize") else ()


def declare(case):
    """the file class with the case's declaration in force. With a declaration history (`redeclare`) the
    class is born with an earlier declaration, used once, and then re-declared through the public idiom
    `SomeFile.REGISTERS = [...]` (or by editing the declared list in place); the history must leave nothing
    behind: the property speaks of the register list declared when the content is read"""
    classes = fsup.mk_register_classes(case["regs"])
    h = case.get("redeclare")
    if not h:
        return fsup.mk_register_file(case["regs"], classes=classes, io=case.get("io"))
    RF, _ = fsup.mk_register_file(case["regs"], classes=[classes[i] for i in h["prior"]], io=case.get("io"))
    for _ in range(h.get("reads", 1)):
        try:
            RF.read(codec.dec_str(h.get("warm", case["content"])), *text_linesize(case))  # in memory: no extra disk traffic
        except Exception:
            pass  # the observed operation is the read made after the re-declaration
    how = h["how"]
    if how == "edit":
        for op in edit_script(h["prior"], len(classes), h.get("style", {})):
            apply_op(RF, classes, op)
        return RF, list(classes)
    if how == "concat_subclass":
        a, b = run_bounds(h["prior"])
        RF = type("RFLater", (RF,), {"REGISTERS": classes[:a] + RF.REGISTERS + classes[b:], "__slots__": []})
        return RF, list(classes)
    if how == "assign":
        RF.REGISTERS = list(classes)
    elif how == "assign_declarer":
        next(k for k in RF.__mro__ if "REGISTERS" in vars(k)).REGISTERS = list(classes)
    else:  # "inplace": the declared list object itself is edited
        RF.REGISTERS[:] = classes
    return RF, classes


def run_bounds(prior):
    """`prior` is a contiguous run a..b-1 of the case's types (empty: placed at the front)"""
    return (prior[0], prior[-1] + 1) if prior else (0, 0)


def edit_script(prior, n, style):
    """the elementary list operations a user who declared `prior` (indices into the case's types) writes to
    arrive at the declaration 0..n-1, computed on the user's own notion of the list: first the types that are
    out of order are taken out (by value or by position), then the missing ones are put in from the front
    (insert at the position), the missing tail with insert / append / extend / += as the style says"""
    view, ops, last = list(prior), [], -1
    for j in list(view):
        if j > last:
            last = j
            continue
        pos = view.index(j)
        ops.append(["remove", j] if style.get("rm", "remove") == "remove" else ["del", pos])
        del view[pos]
    tail = style.get("tail", "append")
    for i in range(n):
        if i < len(view) and view[i] == i:
            continue
        if i < len(view) or tail == "insert":
            ops.append(["insert", i, i])
            view.insert(i, i)
            continue
        rest = list(range(i, n))
        if tail == "append":
            ops += [["append", j] for j in rest]
        else:
            ops.append([tail, rest])  # "extend" / "iadd"
        view += rest
        break
    assert view == list(range(n)), (prior, n, view)
    return ops


def apply_op(RF, classes, op):
    """one operation, applied to whatever list object the class holds at that moment"""
    k = op[0]
    if k == "remove":
        RF.REGISTERS.remove(classes[op[1]])
    elif k == "del":
        del RF.REGISTERS[op[1]]
    elif k == "insert":
        RF.REGISTERS.insert(op[1], classes[op[2]])
    elif k == "append":
        RF.REGISTERS.append(classes[op[1]])
    elif k == "extend":
        RF.REGISTERS.extend([classes[j] for j in op[1]])
    elif k == "iadd":
        RF.REGISTERS += [classes[j] for j in op[1]]
    else:
        raise ValueError(op)


def run_impl(case):
    try:
        RF, classes = declare(case)
        f = fsup.read_text(RF, codec.dec_str(case["content"]), case.get("io"), *text_linesize(case))
        cap = len(case["content"]) + 5
        return {"elems": [fsup.enc_relem(e, classes) for e in fsup.capped(f.data, cap)]}
    except Exception as e:
        return codec.enc_exc(e)


def request(case, obs):
    if "harness_exc" in obs:
        obs = {"exc": "harness"}
    o = obs["elems"] if "elems" in obs else obs
    if isinstance(o, list) and any("dflt_none" in e for e in o):
        o = {"exc": "DefaultWithNoneData"}
    return {"op": "c04", "regs": case["regs"], "content": case["content"], "obs": o}


def judge(case, obs, resp):
    if "error" in resp:
        return {"status": "error", "why": resp["error"]}
    if "harness_exc" in obs:
        return {"status": "error", "why": f"harness: {obs['harness_exc']} {obs.get('msg')}"}
    if not resp["indomain"]:
        return {"status": "skip", "why": "outside the domain"}
    if not resp["model_holds"]:
        return {"status": "error", "why": "the MODEL's loop differs from Spec.C04.expected (loop_eq_map would be false)"}
    if "exc" in obs:
        return {"status": "oracle", "why": f"RegisterFile.read raised {obs['exc']}: {obs.get('msg')}"}
    if not resp["holds"]:
        exp = resp.get("expected")
        got = obs["elems"]
        i = next((k for k in range(max(len(exp), len(got))) if k >= len(exp) or k >= len(got) or exp[k] != got[k]), None) if isinstance(exp, list) else None
        return {"status": "oracle", "why": history_note(case) + f"{len(got)} elements for {len(exp) - 1 if isinstance(exp, list) else '?'} lines; first difference at element #{i}: got {show_elem(got[i]) if i is not None and i < len(got) else None} expected {show_elem(exp[i]) if i is not None and isinstance(exp, list) and i < len(exp) else None}"}
    if not resp["agree"]:
        return {"status": "corr", "why": "model loop and implementation disagree"}
    return {"status": "ok", "why": ""}


def history_note(case):
    h = case.get("redeclare")
    if not h:
        return ""
    if h["how"] == "edit":
        ops = edit_script(h["prior"], len(case["regs"]), h.get("style", {}))
        return f"[read made after the class, first declared with REGISTERS = types {h['prior']} and read, had its declared list edited in place by {ops} (type indices), which gives all {len(case['regs'])} types in order] "
    if h["how"] == "concat_subclass":
        a, b = run_bounds(h["prior"])
        return f"[read made through a subclass declared AFTER its parent (REGISTERS = types {h['prior']}) was read, with REGISTERS = types {list(range(a))} + Parent.REGISTERS + types {list(range(b, len(case['regs'])))}] "
    return f"[read made after the class, first declared with REGISTERS = types {h['prior']} and read, was re-declared ({h['how']}) with all {len(case['regs'])} types in order] "


def show_elem(e):
    if e is None:
        return None
    if "dflt" in e:
        return "Default(" + repr(codec.dec_data(e["dflt"])) + ")"
    if "cls" in e:
        vals = []
        for v in e["data"]:
            try:
                vals.append(repr(codec.dec_val(v)))
            except Exception:
                vals.append(str(v))
        return f"Reg{e['cls']}({', '.join(vals)})"
    return str(e)


def nontrivial(case):
    lines = codec.dec_str(case["content"]).splitlines(True)
    hit = any(codec.dec_str(r["ident"]) in l[: r["digits"]] for l in lines for r in case["regs"])
    return len(lines) >= 2 and hit


def features(case, obs):
    c = codec.dec_str(case["content"])
    f = [f"nregs={len(case['regs'])}", f"nlines={min(len(c.splitlines()), 20)}", "final_newline" if c.endswith("\n") else "no_final_newline"]
    if isinstance(obs, dict) and "elems" in obs:
        f.append("has_default" if any("dflt" in e for e in obs["elems"][1:]) else "no_default")
        classes = {e.get("cls") for e in obs["elems"] if "cls" in e}
        f += [f"class_hit={k}" for k in sorted(classes)]
    if any(r.get("delimiter") for r in case["regs"]):
        f.append("delimited_register")
    if any(r["digits"] == 0 for r in case["regs"]):
        f.append("zero_width_window")
    if case.get("redeclare"):
        f.append("redeclared_" + case["redeclare"]["how"])
    return f


def signature(rec):
    return rec["verdict"]["why"][:25]


def matches_known(trigger, case):
    return False


def snippet(case):
    return f"""import sys; sys.path.insert(0, '/verif/harness'); sys.path.insert(0, '/repo')
from props import c04
case = {json.dumps(case)}
out = c04.run_impl(case)
print([c04.show_elem(e) for e in out.get('elems', [])] or out)
"""


# ------------------------------------------------------------------ generators
def random_fields(rng, start_min, maxn=3):
    fields, pos = [], start_min + rng.choice([0, 0, 1])
    for _ in range(rng.randrange(0, maxn + 1)):
        k = rng.choice(["int", "lit", "flt", "date"])
        if k == "int":
            fd = codec.fd_int(rng.randrange(1, 7), pos)
        elif k == "lit":
            fd = codec.fd_lit(rng.randrange(1, 7), pos)
        elif k == "flt":
            fd = codec.fd_flt(rng.randrange(3, 9), pos, rng.randrange(0, 4), rng.choice("FFE"), rng.choice(".,"))
        else:
            fd = codec.fd_date(rng.choice([6, 8, 10]), pos, [rng.choice(["%d%m%y", "%Y/%m/%d", "%d/%m/%y"])])
        fields.append(fd)
        pos += fd["size"] + rng.choice([0, 0, 1])
    return fields


def random_regs(rng):
    n = rng.randrange(1, 5)
    regs = []
    for _ in range(n):
        ident = rng.choice(IDENT_POOL)
        digits = rng.choice([len(ident), len(ident), len(ident) + 1, 0, 2, 3, 6])
        delim = None
        if rng.random() < 0.15:
            delim = codec.enc_data(rng.choice([";", ",", "::"]))
        start_min = digits if rng.random() < 0.8 else 0
        regs.append({"ident": codec.enc_str(ident), "digits": digits, "fields": random_fields(rng, start_min), "delimiter": delim})
    return regs


SAMPLE_DATA = ["12", "-3", "abc", "x y", "1.5", "2,50", "1E+03", "010203", "2021/02/03", "", "  ", "nan", "9" * 8, "é"]


def canonical_line(rng, r):
    ident = codec.dec_str(r["ident"])
    if r.get("delimiter"):
        d = codec.dec_data(r["delimiter"])
        return d.join([ident] + [rng.choice(SAMPLE_DATA) for _ in r["fields"]]) + "\n"
    width = max([r["digits"]] + [f["start"] + f["size"] for f in r["fields"]])
    line = list(ident.ljust(width))
    for f in r["fields"]:
        tok = rng.choice(SAMPLE_DATA)[: f["size"]]
        tok = tok.rjust(f["size"]) if f["k"] in ("int", "flt") else tok.ljust(f["size"])
        line[f["start"] : f["start"] + f["size"]] = list(tok)
    return "".join(line) + "\n"


def random_content(rng, regs):
    lines = []
    for _ in range(fsup.nlines(rng, 12)):
        r = rng.random()
        reg = rng.choice(regs)
        ident = codec.dec_str(reg["ident"])
        if r < 0.45:
            l = canonical_line(rng, reg)
        elif r < 0.55:
            l = canonical_line(rng, reg)
            l = l[: rng.randrange(0, len(l))] + "\n"  # truncated
        elif r < 0.62:
            l = canonical_line(rng, reg)[:-1] + rng.choice(["zz", " 99", "\t"]) + "\n"  # extended
        elif r < 0.72:
            l = " " * rng.randrange(1, 4) + canonical_line(rng, reg)  # identifier shifted
        elif r < 0.80:
            l = rng.choice(["\n", " \n", "   \n"])
        elif r < 0.9:
            l = "".join(rng.choice("ABCXZ ab01-_#;" + fsup.NON_ASCII) for _ in range(rng.randrange(1, 12))) + "\n"
        else:
            l = ident + "\n"
        lines.append(l)
    c = "".join(lines)
    if c and rng.random() < 0.4:
        c = c[:-1]  # no final newline
    if rng.random() < 0.05:
        c = c.replace("\n", "\n\n", 1)
    return c


def random_case(rng):
    regs = random_regs(rng)
    content = random_content(rng, regs)
    io = None
    if rng.random() < 0.015:
        # in-memory content that names an existing directory or device
        return {"regs": regs, "content": codec.enc_str(fsup.path_like(rng))}
    if rng.random() < 0.15 and content:
        for _ in range(rng.randrange(1, 4)):  # lone carriage returns (in memory only "\n" ends a line)
            i = rng.randrange(len(content))
            content = content[:i] + "\r" + content[i:]
    else:
        io = fsup.io_of(rng, [content])
    case = {"regs": regs, "content": codec.enc_str(content)}
    if rng.random() < 0.3:
        case["linesize"] = rng.choice([2, 3, 16, 80])
    if io:
        case["io"] = io  # the content is read from a path on disk, in the class's declared encoding
    if rng.random() < 0.35:
        case["redeclare"] = random_history(rng, len(regs))
    else:
        # drawn from a stream of its own (derived from the case), so that the cases above stay what they were
        r2 = random.Random(zlib.crc32(json.dumps(case, sort_keys=True).encode()))
        if r2.random() < 0.2:
            case["redeclare"] = random_growth(r2, len(regs))
    return case


def random_growth(rng, n):
    """the declaration is reached step by step from an earlier one that was read: in-place list operations on the
    declared list (earlier declaration: a proper prefix half of the time, any permuted subset otherwise), or a
    subclass declared later around the parent's list (earlier declaration: a contiguous run of the types)"""
    if rng.random() < 0.25:
        a = rng.randrange(0, n + 1)
        b = rng.randrange(a, n + 1)
        if (a, b) == (0, n):
            b = n - 1
        h = {"prior": list(range(a, b)), "how": "concat_subclass"}
    else:
        if rng.random() < 0.5:
            prior = list(range(rng.randrange(0, n)))
        else:
            prior = rng.sample(range(n), rng.randrange(0, n + 1))
            if prior == list(range(n)):
                prior = prior[:-1]
        h = {"prior": prior, "how": "edit",
             "style": {"rm": rng.choice(["remove", "del"]), "tail": rng.choice(["append", "append", "extend", "iadd", "insert"])}}
    if rng.random() < 0.2:
        h["reads"] = 2
    return h


def random_history(rng, n):
    """an earlier declaration of the same file class: a permuted subset of the case's types (empty now and
    then; a different order whenever there is more than one type), one or two reads under it, and the way the
    case's declaration is then put in force"""
    prior = rng.sample(range(n), rng.randrange(0, n + 1))
    if prior == list(range(n)):
        prior = prior[::-1] if n > 1 else []
    h = {"prior": prior, "how": rng.choice(["assign", "assign", "assign_declarer", "inplace"])}
    if rng.random() < 0.2:
        h["reads"] = 2
    return h


def corpus_cases():
    d = Path(__file__).resolve().parent.parent.parent / "corpus" / PROP
    out = []
    if d.exists():
        for f in sorted(d.glob("*.json")):
            j = json.loads(f.read_text())
            out.append(j["case"] if "case" in j else j)
    return out


def chunks(tier, seed):
    ch = [{"kind": "corpus"}]
    nrand = {"quick": 4000, "thorough": 400000}.get(tier, 12000)
    per = max(1, nrand // 16)
    for i in range(16):
        ch.append({"kind": "random", "seed": seed * 1000 + i, "n": per})
    return ch


def cases_of(chunk):
    if chunk["kind"] == "corpus":
        yield from corpus_cases()
    else:
        rng = random.Random(chunk["seed"])
        for _ in range(chunk["n"]):
            yield random_case(rng)


def shrinks(case):
    c = codec.dec_str(case["content"])
    lines = c.splitlines(True)
    h = case.get("redeclare")
    if h:
        yield {k: v for k, v in case.items() if k != "redeclare"}
        if h.get("reads", 1) != 1:
            yield {**case, "redeclare": {**h, "reads": 1}}
    for i in range(len(lines)):
        yield {**case, "content": codec.enc_str("".join(lines[:i] + lines[i + 1 :]))}
    n = len(case["regs"])
    if n > 1:
        for i in range(n):
            c2 = {**case, "regs": case["regs"][:i] + case["regs"][i + 1 :]}
            if h:
                c2["redeclare"] = {**h, "prior": [j - (j > i) for j in h["prior"] if j != i]}
            yield c2
    for i, r in enumerate(case["regs"]):
        for k in range(len(r["fields"])):
            r2 = dict(r, fields=r["fields"][:k] + r["fields"][k + 1 :])
            yield {**case, "regs": case["regs"][:i] + [r2] + case["regs"][i + 1 :]}
