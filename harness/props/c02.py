"""C02 — fixed-width layout discipline: a write touches only its own columns."""
from __future__ import annotations

import itertools
import json
import random
from datetime import datetime
from pathlib import Path

import codec

PROP = "C02"
LEAN_MODULES = ["Props.C02", "Props.C02F"]
RULE = (
    "three case shapes. field: (field config, value, pre-existing str/bytes target line) -> Field.write(line) "
    "compared position by position (Spec.C02.holdsField / holdsFieldBin: length, every position outside the span, "
    "span width and justification shape) and with the model's exact text; exhaustive over kinds x size 0-6 x start "
    "0-6 x target length 0-14 (marker alphabet: every position distinguishable) x value widths 0..size. line: "
    "(layout in any order with gaps, values, storage) -> Line.write (Spec.C02.holdsLine / holdsLineBin). defaults: "
    "geometry of default-constructed fields vs the documented one. field_struct: a binary integer field of a user "
    "subclass (two levels deep) whose class-level type table adds a 1-byte integer, sizes 1/2/4: the layout clauses "
    "(Spec.C02.holdsFieldBin) and the span bytes (int.to_bytes) are evaluated on the observation — the model has no "
    "subclass tables; a fifth of all field objects in every check are instances of a do-nothing user sub-subclass; a tenth of the cases hand integers over as integral floats or numpy scalars (the same numbers). Every third target line of the single-field cases ends in TAB / LF / CR / NBSP / VT / FF instead of a letter. History: every fourth single-field case is run a second time, and a quarter of the line cases are run, on field objects that were already written before the observed write (one to three earlier writes of the SAME field object(s): onto a target of the other storage kind or of the same kind with another length, holding the identical value object / no value / an equal value assigned again; for lines through the same Line object with its storage switched by the setter or through another Line over the same field objects); in two fifths of these histories one of the earlier uses is a DELIMITED Line.write or Line.read (delimiter ; , or |) over the same field object(s), through another Line or through the very Line whose delimiter is then set back to None — the model is asked about the observed write alone, since every write is bound by the property whatever the object served for before. Other objects: an eighth of the single-field cases (half of them on top of a history) and a fifth of the line cases are run after (or around) writes of OTHER field objects of the same class and configuration but with another size and starting position (one or two sibling fields / a sibling layout through its own Line, in the same or the other storage kind) that hold an EQUAL value — the identical object or an equal one built again; in the single-field cases the value is then a fresh one of the same kind and width drawn for the case (a date, digits, letters), so that no other case of the run has rendered it before — the model is asked about the observed write alone, since every field renders as wide as ITS OWN span whatever other fields of the process wrote before. 'fits' is decided by the Lean predicate "
    "Spec.C02.fits; non-fitting cases are skipped (counted under verdicts.skip). non-trivial = field size > 0 and "
    "value not None; distinct by full case."
)
ASSUMPTIONS = [
    "float separator is a non-blank single character; date formats start and end with a directive (no leading/trailing blank)",
    "binary numeric fields have size 2, 4 or 8 (the property's domain)",
]
TRUSTED = []
NOT_THEOREMS = ['nothing within the domain: the character shape of every rendering is a theorem (Props.C02.shape_dom, field_write_dom, line_write_dom) — floats in F notation for every finite double, in E notation for every finite double in normal form (Props.C01.FloatFB, floatFB_all)']
EXHAUSTIVE = {"quick": True, "thorough": True}
MARK = "abcdefghijklmnopqrstuvwxyz"


def run_impl(case):
    import warnings

    with warnings.catch_warnings():
        warnings.simplefilter("ignore")  # numpy's "overflow encountered in cast" for huge values in narrow float fields
        return _run_impl(case)


def given(case, j, fd):
    """the value as the caller hands it over: an integer may arrive as an integral float or a numpy scalar
    (what a pandas column that once held a missing value gives) — the same number"""
    v = codec.dec_val(j)
    ia = case.get("int_as")
    if ia and fd.get("k") == "int" and isinstance(v, int) and not isinstance(v, bool) and abs(v) < 2**53:
        import numpy as np

        return {"float": float, "np_float": np.float64, "np_int": np.int64}[ia](v)
    return v


def warm_field(f, case, v):
    """the earlier uses of this field object (case["hist"]), then the value of the observed write in place.
    A step writes the field onto another target line (either storage kind) holding the identical value object
    ("same": assigned once, never re-assigned), no value ("none") or an equal value assigned again ("again").
    What an earlier write returned or raised is of no concern here: it is a case of its own."""
    f.value = v
    for h in case.get("hist") or []:
        if h["value"] == "none":
            f.value = None
        elif h["value"] == "again":
            f.value = given(case, case["value"], case["field"]) if case["mode"] == "field" else codec.dec_val(case["value"])
        try:
            if h.get("delim"):
                # the field served a delimited line (an export / import of the same record) before
                from cfinterface.components.line import Line

                dl = Line([f], delimiter=h["delim"])
                if h.get("op") == "read":
                    dl.read("7\n")
                else:
                    dl.write([f.value])
            else:
                f.write(codec.dec_data(h["line"]))
        except Exception:
            pass
        if h["value"] == "none" or h.get("op") == "read":
            f.value = v


def warm_line(fs, case, vals):
    """the earlier uses of the field objects of a layout (case["hist"]): whole-line writes in the storage the step
    names, with the very same value objects ("same"), no values ("none") or equal ones built again ("again");
    through another Line object over the same fields ("other_line") or through one Line object whose storage
    is switched with the setter afterwards ("setter": that Line is returned for the observed write)."""
    from cfinterface.components.line import Line

    keep = None
    for h in case.get("hist") or []:
        if h["values"] == "none":
            hv = [None] * len(vals)
        elif h["values"] == "again":
            fds = case["fields"]
            hv = [given(case, v, fds[i] if i < len(fds) else {}) for i, v in enumerate(case["values"])][: len(vals)]
        else:
            hv = vals
        dl = h.get("delim")  # a delimited step (text storage): the same fields serve a delimited line
        try:
            if h["how"] == "setter" and case.get("via") not in ("values_arg", "fields_setter"):
                if keep is None:
                    keep = Line(fs, storage=h["storage"], delimiter=dl)
                else:
                    keep.storage = h["storage"]
                    keep.delimiter = dl
                ln = keep
            else:
                ln = Line(fs, storage=h["storage"], delimiter=dl)
            if dl and h.get("op") == "read":
                ln.read(dl.join(["7"] * len(fs)) + "\n")
            else:
                ln.write(hv)
        except Exception:
            pass
        if dl and h.get("op") == "read":
            # what was read is cleared again: the observed write starts from fields without a value
            for f in fs:
                f.value = None
    if keep is not None:
        keep.delimiter = None  # the observed write is positional
    return keep


def sibling_fields(case, make, v, again):
    """writes of OTHER field objects before the observed one (case["sib"]): each step builds a field of the same
    class and configuration with another size / starting position (make), gives it an equal value (the identical
    object, or an equal one built again) and writes it onto a target line of its own. What these writes return or
    raise is of no concern here. Returns the steps that are due right before the observed write."""
    late = []
    for st in case.get("sib") or []:
        def go(st=st):
            try:
                g = make(st["size"], st["start"])
                g.value = again() if st["value"] == "again" else v
                g.write(codec.dec_data(st["line"]))
            except Exception:
                pass
        if st.get("when") == "last":
            late.append(go)
        else:
            go()
    return late


def sibling_layout(case, vals, when):
    """a sibling layout (case["sib"]): fresh field objects of the same configurations with other sizes, shifted,
    written through a Line of their own with equal values"""
    from cfinterface.components.line import Line

    sb = case.get("sib")
    if not sb or sb.get("when", "first") != when:
        return
    try:
        fds = case["fields"]
        gs = [codec.mk_field({**fd, "size": sb["sizes"][i], "start": fd["start"] + sb["shift"]}) for i, fd in enumerate(fds)]
        if sb["values"] == "again":
            hv = [given(case, v, fds[i] if i < len(fds) else {}) for i, v in enumerate(case["values"])][: len(vals)]
        else:
            hv = vals
        Line(gs, storage=sb["storage"]).write(hv)
    except Exception:
        pass


def sib_text(case):
    sb = case.get("sib")
    if not sb:
        return ""
    if case["mode"] == "line":
        return (f" — {'right before' if sb.get('when') == 'last' else 'earlier'} a SIBLING layout (other field objects, same configurations, sizes {sb['sizes']}, "
                f"shifted by {sb['shift']}) wrote equal values ({sb['values']}) through its own {sb['storage'] or 'default'}-storage Line")
    return " — OTHER field objects of the same configuration wrote an equal value before: " + "; ".join(
        f"size {st['size']} at column {st['start']} onto {show(st['line'])} (value: {st['value']}, {st.get('when', 'first')})" for st in sb)


def hist_text(case):
    hs = case.get("hist") or []
    if not hs:
        return ""
    if case["mode"] == "line":
        steps = [
            (f"a line {h.get('op', 'write')} DELIMITED by {h['delim']!r} ({h['how']}, values: {h['values']})" if h.get("delim") else f"a {h['storage'] or 'default'}-storage line write ({h['how']}, values: {h['values']})")
            for h in hs
        ]
    else:
        steps = [
            (f"a one-field line {h.get('op', 'write')} DELIMITED by {h['delim']!r} (value: {h['value']})" if h.get("delim") else f"onto {show(h['line'])} (value: {h['value']})")
            for h in hs
        ]
    return " — observed on field object(s) already written before: " + "; then ".join(steps)


def _run_impl(case):
    m = case["mode"]
    try:
        if m == "field":
            v = given(case, case["value"], case["field"])
            late = sibling_fields(case, lambda sz, st: codec.mk_field({**case["field"], "size": sz, "start": st}), v, lambda: given(case, case["value"], case["field"]))
            f = codec.mk_field(case["field"])
            warm_field(f, case, v)
            for go in late:
                go()
            return {"out": codec.enc_data(f.write(codec.dec_data(case["line"])))}
        if m == "field_struct":
            # a user subclass (two levels deep) that extends the class-level numeric type table
            import numpy as np
            from cfinterface.components.integerfield import IntegerField

            mid = type("SmallInt", (IntegerField,), {"TYPES": {**IntegerField.TYPES, 1: np.int8}})
            cls = type("Flag", (mid,), {})
            v = codec.dec_val(case["value"])
            late = sibling_fields(case, cls, v, lambda: codec.dec_val(case["value"]))
            f = cls(case["field"]["size"], case["field"]["start"])
            warm_field(f, case, v)
            for go in late:
                go()
            return {"out": codec.enc_data(f.write(codec.dec_data(case["line"])))}
        if m == "line":
            from cfinterface.components.line import Line

            fs = [codec.mk_field(fd) for fd in case["fields"]]
            fds = case["fields"]
            vals = [given(case, v, fds[i] if i < len(fds) else {}) for i, v in enumerate(case["values"])]
            if case.get("nvals") is not None and case.get("via") not in ("values_arg", "fields_setter"):
                vals = vals[: case["nvals"]]
            sibling_layout(case, vals, "first")
            ln = warm_line(fs, case, vals)
            sibling_layout(case, vals, "last")
            if ln is not None:
                # the same Line object served another storage before; switched through the public setter
                ln.storage = case["storage"]
                return {"out": codec.enc_data(ln.write(vals))}
            if case.get("via") == "values_arg":
                ln = Line(fs, values=vals, storage=case["storage"])
                return {"out": codec.enc_data(ln.write(vals))}
            if case.get("via") == "fields_setter":
                # the Line object first served a wider layout (and wrote with it), then its
                # layout is replaced through the public setter
                from cfinterface.components.literalfield import LiteralField

                wide = [LiteralField(7, 0), LiteralField(5, max([f.ending_position for f in fs] + [0]) + 11)]
                ln = Line(wide, storage=case["storage"])
                ln.write(["a", "b"])
                ln.fields = fs
                return {"out": codec.enc_data(ln.write(vals))}
            # with fewer values than fields (nvals) the fields without a value still belong to the layout
            # (a line that never got a value for them holds None: blanks)
            ln = Line(fs, storage=case["storage"])
            return {"out": codec.enc_data(ln.write(vals))}
        if m == "defaults":
            from cfinterface.components.literalfield import LiteralField
            from cfinterface.components.integerfield import IntegerField
            from cfinterface.components.floatfield import FloatField
            from cfinterface.components.datetimefield import DatetimeField

            l, i, f, d = LiteralField(), IntegerField(), FloatField(), DatetimeField()
            # decimals / notation / separator / date format are private: observe them by behaviour
            f.value = 1.5
            ftxt = f.write("")
            d.value = datetime(2021, 2, 3)
            dtxt = d.write("").strip()
            dec = len(ftxt.strip().split(".")[1]) if "." in ftxt else -1
            fmt = "F" if "e" not in ftxt.lower() else "E"
            sep = "." if "." in ftxt else ","
            dfmt = "%Y/%m/%d" if dtxt == "2021/02/03" else "other:" + dtxt
            return {
                "geometry": [l.size, l.starting_position, i.size, i.starting_position, f.size, f.starting_position, dec, d.size, d.starting_position],
                "float_format": codec.enc_str(fmt),
                "float_sep": codec.enc_str(sep),
                "date_format": codec.enc_str(dfmt),
                "ends": [l.ending_position, i.ending_position, f.ending_position, d.ending_position],
            }
    except Exception as e:
        return {"out": codec.enc_exc(e)}


def request(case, obs):
    m = case["mode"]
    if "harness_exc" in obs:
        obs = {"out": {"exc": "harness"}}
    if m == "field":
        return {"op": "c02", "mode": "field", "field": case["field"], "value": case["value"], "line": case["line"], "out": obs["out"]}
    if m == "field_struct":
        v = codec.dec_val(case["value"])
        span = (0 if v is None else v).to_bytes(case["field"]["size"], "little", signed=True)
        return {"op": "c02", "mode": "field_struct", "field": case["field"], "line": case["line"], "out": obs["out"], "span_expected": codec.enc_data(span)}
    if m == "line":
        values = case["values"]
        if case.get("nvals") is not None and case.get("via") == "write_arg":
            values = values[: case["nvals"]] + [None] * (len(values) - case["nvals"])
        return {"op": "c02", "mode": "line", "fields": case["fields"], "values": values, "storage": case["storage"], "out": obs["out"]}
    if "geometry" not in obs:
        return {"op": "c02", "mode": "defaults", "geometry": [], "float_format": [], "float_sep": [], "date_format": []}
    return {"op": "c02", "mode": "defaults", **{k: obs[k] for k in ("geometry", "float_format", "float_sep", "date_format")}}


def judge(case, obs, resp):
    if "error" in resp:
        return {"status": "error", "why": resp["error"]}
    if "harness_exc" in obs:
        return {"status": "error", "why": f"harness: {obs['harness_exc']} {obs.get('msg')}"}
    if not resp["indomain"]:
        return {"status": "skip", "why": "value does not fit / layout outside the domain"}
    if not resp["model_holds"]:
        return {"status": "error", "why": "the MODEL's output violates Spec.C02 (theorem would be false)"}
    if not resp["holds"]:
        if case["mode"] == "defaults":
            return {"status": "oracle", "why": f"default geometry is {obs.get('geometry')} {obs.get('float_format')} {obs.get('date_format')}, documented [80,0,8,0,8,0,4,16,0] F . %Y/%m/%d"}
        return {"status": "oracle", "why": f"write produced {show(obs['out'])}; the layout discipline requires {show(resp['model'])}" + hist_text(case) + sib_text(case)}
    if not resp["agree"]:
        return {"status": "corr", "why": f"model {show(resp['model'])} vs implementation {show(obs.get('out'))}" + hist_text(case) + sib_text(case)}
    return {"status": "ok", "why": ""}


def show(d):
    if isinstance(d, dict) and "s" in d:
        return repr(codec.dec_str(d["s"]))
    if isinstance(d, dict) and "b" in d:
        return repr(bytes(d["b"]))
    return str(d)


def nontrivial(case):
    if case["mode"] in ("field", "field_struct"):
        return case["field"]["size"] > 0 and case["value"] is not None
    if case["mode"] == "line":
        return len(case["fields"]) > 0
    return True


def features(case, obs):
    m = case["mode"]
    f = [f"mode={m}"]
    if m in ("field", "field_struct"):
        f += [f"kind={case['field']['k']}", "bytes" if "b" in case["line"] else "str"]
        ln = len(case["line"].get("s", case["line"].get("b")))
        stop = case["field"]["start"] + case["field"]["size"]
        f.append("target_shorter_than_span" if ln < stop else ("target_longer_than_span" if ln > stop else "target_exact"))
        f.append("missing_value" if case["value"] is None else "value")
    if m == "line":
        f += [f"storage={case['storage'] or 'default'}", f"nfields={len(case['fields'])}"]
    f.append(f"earlier_writes={len(case.get('hist') or [])}")
    if case.get("sib"):
        f.append("sibling_objects_before")
    if any(h.get("delim") for h in case.get("hist") or []):
        f.append("delimited_use_before")
    return f


def signature(rec):
    c = rec["case"]
    return c["mode"] + (c["field"]["k"] if c["mode"] == "field" else "")


def matches_known(trigger, case):
    return False


def snippet(case):
    return f"""import sys; sys.path.insert(0, '/verif/harness'); sys.path.insert(0, '/repo')
from props import c02
case = {json.dumps(case)}
print(c02.show(c02.run_impl(case).get('out')))
"""


# ------------------------------------------------------------------ generators
DATE_FMTS = {2: "%y", 4: "%d%m", 5: "%H:%M", 6: "%d%m%y", 3: None, 1: None, 0: None}


def values_for(kind, size):
    """fitting and nearly-fitting values of several rendered widths"""
    out = [None, codec.enc_val(float("nan")), {"nat": True}]  # every sort of missing marker, in every kind of field
    if kind == "int":
        for w in range(1, size + 2):
            out.append({"i": int("9" * w)})
            if w >= 2:
                out.append({"i": -int("9" * (w - 1))})
        out.append({"i": 0})
    elif kind == "lit":
        for w in range(0, size + 2):
            out.append({"s": codec.enc_str("XYZWVU"[:w] if w <= 6 else "X" * w)})
        if size >= 3:
            out.append({"s": codec.enc_str(" q ")})
    elif kind == "flt":
        for x in [0.0, -0.0, 1.5, -1.5, 9.99, 123.456, 0.001, 99999.5, 1e10, -2.5e-3, float("nan")]:
            out.append(codec.enc_val(x))
    elif kind == "date":
        out.append(codec.enc_val(datetime(2021, 2, 3, 4, 5, 6)))
        out.append(codec.enc_val(datetime(1999, 12, 31, 23, 59, 59)))
    return out


def field_configs(kind, size, start):
    if kind == "int":
        return [codec.fd_int(size, start)]
    if kind == "lit":
        return [codec.fd_lit(size, start)]
    if kind == "flt":
        return [codec.fd_flt(size, start, d, f, s) for d, f, s in [(2, "F", "."), (0, "F", "."), (3, "F", ","), (1, "E", "."), (2, "e", ",")]]
    if kind == "date":
        fm = DATE_FMTS.get(size) or ("%d/%m/%y" if size >= 8 else ("%d%m%y" if size >= 6 else None))
        return [codec.fd_date(size, start, [fm])] if fm else []
    return []


def exhaustive_field(kind, maxsize, maxstart, maxlen):
    for size in range(0, maxsize + 1):
        for start in range(0, maxstart + 1):
            for fd in field_configs(kind, size, start):
                for v in values_for(kind, size):
                    for ln in range(0, maxlen + 1):
                        yield {"mode": "field", "field": fd, "value": v, "line": codec.enc_data(MARK[:ln])}


def exhaustive_field_bin(maxstart, maxlen):
    specs = [("int", 2), ("int", 4), ("int", 8), ("flt", 2), ("flt", 4), ("flt", 8), ("lit", 3), ("lit", 0), ("date", 6)]
    for kind, size in specs:
        for start in range(0, maxstart + 1):
            fd = {"int": codec.fd_int, "flt": codec.fd_flt, "lit": codec.fd_lit}.get(kind, None)
            fdesc = fd(size, start) if fd else codec.fd_date(size, start, ["%d%m%y"])
            vals = {
                "int": [None, {"i": 0}, {"i": -1}, {"i": 2 ** (8 * size - 1) - 1}, {"i": -(2 ** (8 * size - 1))}, {"i": 258}],
                "flt": [None, codec.enc_val(1.5), codec.enc_val(-0.0), codec.enc_val(65504.0), codec.enc_val(1e-7), codec.enc_val(float("nan"))],
                "lit": [None, {"s": codec.enc_str("ab")}, {"s": codec.enc_str("")}, {"s": codec.enc_str("abc")}, codec.enc_val(float("nan")), {"nat": True}],
                "date": [None, codec.enc_val(datetime(2021, 2, 3))],
            }[kind]
            for v in vals:
                for ln in range(0, maxlen + 1):
                    yield {"mode": "field", "field": fdesc, "value": v, "line": codec.enc_data(bytes(range(97, 97 + ln)))}
    # user subclass (two levels) extending the class-level type table with a 1-byte integer;
    # the native widths must keep working in it too
    for size in (1, 2, 4):
        for start in range(0, maxstart + 1):
            for v in (None, {"i": 0}, {"i": 7}, {"i": -1}, {"i": 2 ** (8 * size - 1) - 1}, {"i": -(2 ** (8 * size - 1))}):
                for ln in range(0, maxlen + 1):
                    yield {"mode": "field_struct", "field": codec.fd_int(size, start), "value": v, "line": codec.enc_data(bytes(range(97, 97 + ln)))}


def random_layout(rng, binary=False):
    n = rng.randrange(1, 7)
    pos = 0
    fields, values = [], []
    for _ in range(n):
        pos += rng.choice([0, 0, 1, 3])
        k = rng.choice(["int", "lit", "flt", "date"])
        if binary:
            size = rng.choice([2, 4, 8]) if k in ("int", "flt") else (rng.randrange(1, 9) if k == "lit" else rng.choice([6, 8, 10]))
        else:
            size = rng.randrange(1, 13) if k != "date" else rng.choice([8, 10, 12, 16])
        if k == "int":
            fd = codec.fd_int(size, pos)
            lim = 10 ** min(size, 17) if not binary else 2 ** (8 * size - 1)
            v = rng.choice([None, {"i": rng.randrange(-(lim // 10) + 1, lim) if lim > 10 else rng.randrange(0, lim)}])
        elif k == "lit":
            fd = codec.fd_lit(size, pos)
            w = rng.randrange(0, size + 1)
            v = rng.choice([None, {"s": codec.enc_str("".join(rng.choice("abcXYZ 09-_") for _ in range(w)))}])
        elif k == "flt":
            fd = codec.fd_flt(size, pos, rng.randrange(0, 6), rng.choice("FfEe"), rng.choice(".,"))
            x = rng.choice([0.0, -0.0, rng.uniform(-1000, 1000), rng.uniform(-1, 1), 10 ** rng.uniform(-8, 8), float("nan")])
            v = rng.choice([None, codec.enc_val(x)])
        else:
            fm = "%Y/%m/%d" if size >= 10 else ("%d/%m/%y" if size >= 8 else "%d%m%y")
            fd = codec.fd_date(size, pos, [fm])
            v = rng.choice([None, codec.enc_val(datetime(rng.randrange(1000, 9999), rng.randrange(1, 13), rng.randrange(1, 29)))])
        fields.append(fd)
        values.append(v)
        pos += size
    order = list(range(n))
    rng.shuffle(order)
    return {
        "mode": "line",
        "fields": [fields[i] for i in order],
        "values": [values[i] for i in order],
        "storage": "BINARY" if binary else rng.choice(["", "TEXT"]),
        "via": rng.choice(["write_arg", "write_arg", "values_arg", "fields_setter"]),
        "nvals": rng.randrange(0, n) if n > 0 and rng.random() < 0.25 else None,
    }


def corpus_cases():
    d = Path(__file__).resolve().parent.parent.parent / "corpus" / PROP
    out = []
    if d.exists():
        for f in sorted(d.glob("*.json")):
            j = json.loads(f.read_text())
            out.append(j["case"] if "case" in j else j)
    return out


def chunks(tier, seed):
    ch = [{"kind": "corpus"}, {"kind": "defaults"}]
    if tier == "quick":
        ms, mst, ml, nrand = 6, 6, 14, 4000
    elif tier == "thorough":
        ms, mst, ml, nrand = 10, 8, 24, 400000
    else:
        ms, mst, ml, nrand = 6, 6, 14, 12000
    for kind in ("int", "lit", "flt", "date"):
        for part in range(3 if kind != "flt" else 6):
            ch.append({"kind": "exh", "k": kind, "ms": ms, "mst": mst, "ml": ml, "part": part, "of": 3 if kind != "flt" else 6})
    ch.append({"kind": "exhbin", "mst": 4, "ml": 14})
    per = max(1, nrand // 8)
    for i in range(8):
        ch.append({"kind": "rline", "seed": seed * 1000 + i, "n": per, "binary": i % 4 == 3})
    return ch


def ws_tail(c, i):
    """every third target line ends in a white-space character other than (or as well as) a blank: a line taken
    from a file still carries its terminator; what stands outside the field's span stays as it is"""
    if i % 3 != 1 or c.get("mode") != "field":
        return c
    l = c["line"]
    key = "s" if "s" in l else "b"
    if not l[key]:
        return c
    tail = ([9, 10, 13, 160, 32, 11] if key == "s" else [9, 10, 13, 32, 12, 11])[(i // 3) % 6]
    return {**c, "line": {key: l[key][:-1] + [tail]}}


def other_kind(l):
    """the same target line in the other storage kind (str <-> bytes)"""
    if "s" in l:
        return {"b": [c if c < 256 else 63 for c in l["s"]]}
    return {"s": list(l["b"])}


def field_hist(c, i):
    """one to three earlier writes of the same field object, chosen by the case index: the target of a step
    is the observed target in the other storage kind, or one of the same kind with another length"""
    rng = random.Random(i * 7919 + 11)
    l = c["line"]
    key = "s" if "s" in l else "b"
    n = len(l[key])
    mark = [ord(ch) for ch in MARK]
    steps = []
    for s in range(rng.choice([1, 1, 2, 3])):
        other = rng.random() < 0.6 if s else rng.random() < 0.75
        m = rng.choice([n, n, (n + 5) % 15, c["field"]["start"] + c["field"]["size"] + 2, 0])
        tgt = {key: (mark + mark)[:m]}
        steps.append({"line": other_kind(tgt) if other else tgt, "value": rng.choice(["same", "same", "same", "none", "again"])})
    delimited_step(steps, random.Random(i * 104729 + 5), {"line": {key: []}, "value": "same"})
    return {**c, "hist": steps}


def delimited_step(steps, drng, base):
    """in two fifths of the histories one more earlier use, at any place among the others: the field object(s)
    took part in a delimited Line.write / Line.read (its own random stream: the other steps stay what they were)"""
    if drng.random() < 0.4:
        st = {**base, "delim": drng.choice([";", ",", "|"]), "op": drng.choice(["write", "write", "read"])}
        steps.insert(drng.randrange(0, len(steps) + 1), st)


def line_hist(c, rng):
    """one to three earlier whole-line writes over the same field objects, mostly in the other storage"""
    cur = "BINARY" if c["storage"] == "BINARY" else "TEXT"
    steps = []
    for s in range(rng.choice([1, 1, 2, 3])):
        other = rng.random() < 0.75
        st = ("TEXT" if cur == "BINARY" else "BINARY") if other else cur
        steps.append({"storage": rng.choice(["", "TEXT"]) if st == "TEXT" else "BINARY", "values": rng.choice(["same", "same", "same", "none", "again"]), "how": rng.choice(["setter", "other_line"])})
    drng = random.Random(rng.randrange(2**32))
    delimited_step(steps, drng, {"storage": drng.choice(["", "TEXT"]), "values": drng.choice(["same", "same", "none", "again"]), "how": drng.choice(["setter", "other_line"])})
    return {**c, "hist": steps}


def fresh_value(v, rng):
    """a value of the same kind and rendered width that no other case of the run holds"""
    if not isinstance(v, dict):
        return v
    if "d" in v:
        return codec.enc_val(datetime(rng.randrange(1000, 9999), rng.randrange(1, 13), rng.randrange(1, 29), rng.randrange(24), rng.randrange(60), rng.randrange(60)))
    if "i" in v and v["i"] != 0:
        w = len(str(abs(v["i"])))
        n = int(str(rng.randrange(1, 10)) + "".join(str(rng.randrange(10)) for _ in range(w - 1)))
        return {"i": n if v["i"] > 0 else -n}
    if "s" in v:
        return {"s": [c if c == 32 else ord(rng.choice("ABCDEFGHJKLMNPQRSTUVWXYZ")) for c in v["s"]]}
    return v


def field_sib(c, i):
    """one or two writes of sibling field objects (another size, another column) with an equal value, first of
    all or right before the observed write; binary numeric siblings take another of the sizes 2 / 4 / 8"""
    rng = random.Random(i * 15485863 + 3)
    fd = c["field"]
    l = c["line"]
    key = "s" if "s" in l else "b"
    mark = [ord(ch) for ch in MARK]
    steps = []
    for _ in range(rng.choice([1, 1, 2])):
        k2 = key if rng.random() < 0.7 else ("b" if key == "s" else "s")
        if k2 == "b" and fd["k"] in ("int", "flt") and c["mode"] == "field":
            size = rng.choice([z for z in (2, 4, 8) if z != fd["size"]])
        elif c["mode"] == "field_struct":
            size = rng.choice([z for z in (1, 2, 4) if z != fd["size"]])
        else:
            size = max(0, fd["size"] + rng.choice([-3, -2, -1, 1, 2, 4, 6]))
        start = max(0, fd["start"] + rng.choice([-2, 0, 0, 1, 3]))
        m = rng.choice([0, len(l[key]), start + size + 2, start + 1])
        steps.append({"size": size, "start": start, "line": {k2: (mark + mark)[:m]}, "value": rng.choice(["same", "again"]), "when": rng.choice(["first", "last"])})
    # (the binary integer of the subclass table keeps its value: its domain is the byte range, not a width)
    return {**c, "value": c["value"] if c["mode"] == "field_struct" else fresh_value(c["value"], rng), "sib": steps}


def line_sib(c, rng):
    """a sibling layout: the same configurations with other sizes, shifted, written with equal values"""
    binary = c["storage"] == "BINARY"
    other = rng.random() < 0.3
    sb = ("TEXT" if binary else "BINARY") if other else ("BINARY" if binary else "TEXT")
    sizes = []
    for fd in c["fields"]:
        if sb == "BINARY" and fd["k"] in ("int", "flt"):
            sizes.append(rng.choice([z for z in (2, 4, 8) if z != fd["size"]] if binary else [2, 4, 8]))
        else:
            sizes.append(max(1, fd["size"] + rng.choice([-4, -2, -1, 1, 2, 4, 6])))
    sib = {"sizes": sizes, "shift": rng.choice([0, 0, 1, 5]), "storage": rng.choice(["", "TEXT"]) if sb == "TEXT" else "BINARY", "values": rng.choice(["same", "again"]), "when": rng.choice(["first", "last"])}
    return {**c, "sib": sib}


def cases_of(chunk):
    k = chunk["kind"]
    if k == "corpus":
        yield from corpus_cases()
    elif k == "defaults":
        yield {"mode": "defaults"}
    elif k == "exh":
        for i, c in enumerate(exhaustive_field(chunk["k"], chunk["ms"], chunk["mst"], chunk["ml"])):
            if i % chunk["of"] == chunk["part"]:
                if chunk["k"] == "int" and i % 5 == 0:
                    c = {**c, "int_as": ("float", "np_float", "np_int")[(i // 5) % 3]}
                c = ws_tail(c, i)
                yield c
                if i % 4 == 3:
                    yield field_hist(c, i)
                if i % 8 == 5:
                    yield field_sib(c, i)
                elif i % 16 == 7:
                    yield field_sib(field_hist(c, i), i)
    elif k == "exhbin":
        for i, c in enumerate(exhaustive_field_bin(chunk["mst"], chunk["ml"])):
            c = ws_tail(c, i)
            yield c
            if i % 4 == 3:
                yield field_hist(c, i)
            if i % 8 == 5:
                yield field_sib(c, i)
            elif i % 16 == 7:
                yield field_sib(field_hist(c, i), i)
    elif k == "rline":
        rng = random.Random(chunk["seed"])
        hrng = random.Random(chunk["seed"] * 31 + 7)  # its own stream: the layouts stay what they were
        srng = random.Random(chunk["seed"] * 131 + 29)  # the stream of the sibling layouts
        for _ in range(chunk["n"]):
            c = random_layout(rng, chunk["binary"])
            if rng.random() < 0.1:
                c["int_as"] = rng.choice(["float", "np_float", "np_int"])
            if hrng.random() < 0.25:
                c = line_hist(c, hrng)
            if srng.random() < 0.2:
                c = line_sib(c, random.Random(srng.randrange(2**32)))
            yield c


def shrinks(case):
    hs = case.get("hist") or []
    if len(hs) > 1:
        for i in range(len(hs)):
            yield {**case, "hist": hs[:i] + hs[i + 1 :]}
    sb = case.get("sib")
    if sb and hs:
        yield {**case, "hist": []}
    if sb and case["mode"] != "line" and len(sb) > 1:
        for i in range(len(sb)):
            yield {**case, "sib": sb[:i] + sb[i + 1 :]}
    if case["mode"] == "line":
        n = len(case["fields"])
        for i in range(n):
            c2 = {**case, "fields": case["fields"][:i] + case["fields"][i + 1 :], "values": case["values"][:i] + case["values"][i + 1 :]}
            if sb:
                c2["sib"] = {**sb, "sizes": sb["sizes"][:i] + sb["sizes"][i + 1 :]}
            yield c2
    if case["mode"] == "field":
        l = case["line"]
        key = "s" if "s" in l else "b"
        if l[key]:
            yield {**case, "line": {key: l[key][:-1]}}
            yield {**case, "line": {key: []}}
