"""C12 — block files: begin-pattern dispatch, full accounting, verbatim round trip."""
from __future__ import annotations

import json
import random
from io import BytesIO, StringIO
from pathlib import Path

import codec
import filesupport as fsup

PROP = "C12"
LEAN_MODULES = ["Props.C12", "Props.Legacy"]
RULE = (
    "case = (storage text|binary, 1-4 raw-storing block types with regular-expression begin/end patterns from a small "
    "AST (literals, '.', sets, concatenation, alternation, star, optional '^') that match mid-line and overlap so "
    "that declaration order matters; content with nested-looking markers, unterminated blocks, markers on the last "
    "line without newline, empty content; binary storage with one-byte markers). In about a third of the cases with "
    "two or more block types some declared types are DERIVED from other declared types of the same list (declared "
    "before or after them, chains allowed) and state their own BEGIN_PATTERN and/or END_PATTERN in place of the "
    "inherited one (a new version of a block): a type's patterns are the ones it resolves to, however it came by "
    "them, so the expectation is the model's for the flat list of effective patterns. BlockFile.read(x) then "
    "BlockFile.write(buffer) on the real code; observed: class and stored raw data of every element, the written "
    "output. Judged by Spec.C12.holds (elements = the dispatch refinement readBlockFile; raw data concatenate to x; "
    "output == x) and compared with the model. non-trivial = at least one declared block is selected; distinct by "
    "full case."
)
ASSUMPTIONS = [
    "blocks are the harness's raw-storing blocks (store the lines / bytes they consume up to and including the first unit matching END_PATTERN, or to the end of input)",
    "regular expressions are limited to the harness AST; Python's re is compared with the Lean derivative matcher on every case (trusted only in the correspondence, the theorems are parametric in begins/ends)",
]
TRUSTED = ["Python re.search for the AST subset"]
EXHAUSTIVE = {"quick": False, "thorough": False}


def block_classes(case):
    """the declared block types.  Without "derive": the harness's stand-alone types.  With it, entry i is
    None or {"from": j, "own": "both"|"begin"|"end"}: type i is a subclass of declared type j that states the
    named patterns itself and inherits the rest (read / write and, where not its own, a pattern — the
    generator makes case["blocks"][i] the EFFECTIVE patterns, i.e. equal to j's where inherited)."""
    binary = case["binary"]
    flat = fsup.mk_block_classes(case["blocks"], binary)
    derive = case.get("derive")
    if not derive or not any(derive):
        return flat
    out = [None] * len(flat)
    todo = list(range(len(flat)))
    while todo:
        progressed = False
        for i in list(todo):
            d = derive[i] if i < len(derive) else None
            if not d:
                out[i] = flat[i]
            elif out[d["from"]] is not None:
                ns = {"__slots__": []}
                if d["own"] in ("both", "begin"):
                    ns["BEGIN_PATTERN"] = flat[i].BEGIN_PATTERN
                if d["own"] in ("both", "end"):
                    ns["END_PATTERN"] = flat[i].END_PATTERN
                out[i] = fsup.derived(type(f"Blk{i}", (out[d["from"]],), ns), i)
            else:
                continue
            todo.remove(i)
            progressed = True
        if not progressed:
            raise ValueError("cyclic derivation in the case")
    return out


def run_impl(case):
    binary = case["binary"]
    try:
        BF, classes = fsup.mk_block_file(case["blocks"], binary, classes=block_classes(case), io=case.get("io"))
        x = bytes(case["x"]) if binary else codec.dec_str(case["x"])
        f = fsup.read_text(BF, x, case.get("io"))
        cap = len(x) + 5
        elems = [fsup.enc_belem(e, classes, binary) for e in fsup.capped(f.data, cap)]
        w = fsup.write_text(f, case.get("io"), binary, (f.data,) if case.get("query_in_write") else ())
        return {"elems": elems, "written": list(w) if binary else codec.enc_str(w)}
    except Exception as e:
        return codec.enc_exc(e)


def request(case, obs):
    if "harness_exc" in obs:
        obs = {"exc": "harness"}
    if "elems" in obs and any("dflt_none" in e for e in obs["elems"]):
        obs = {"exc": "DefaultWithNoneData"}
    return {"op": "c12", "binary": case["binary"], "blocks": case["blocks"], "x": case["x"], "obs": obs}


def judge(case, obs, resp):
    if "error" in resp:
        return {"status": "error", "why": resp["error"]}
    if "harness_exc" in obs:
        return {"status": "error", "why": f"harness: {obs['harness_exc']} {obs.get('msg')}"}
    if not resp["model_holds"]:
        return {"status": "error", "why": f"the MODEL violates Spec.C12.holds: {show(resp.get('model'), case['binary'])}"}
    if "exc" in obs:
        return {"status": "oracle", "why": f"BlockFile read/write raised {obs['exc']}: {obs.get('msg')}{show_derive(case)}"}
    if not resp["holds"]:
        return {"status": "oracle", "why": f"x={showx(case)}{show_derive(case)}: got {show(obs, case['binary'])}; required {show(resp.get('model'), case['binary'])}"}
    if not resp["agree"]:
        return {"status": "corr", "why": "model and implementation disagree"}
    return {"status": "ok", "why": ""}


def show_derive(case):
    ds = [(i, d) for i, d in enumerate(case.get("derive") or []) if d]
    if not ds:
        return ""
    own = {"both": "its own begin and end patterns", "begin": "its own begin pattern", "end": "its own end pattern"}
    pats = [(fsup.pat_render(b["begin"], case["binary"]), fsup.pat_render(b["end"], case["binary"])) for b in case["blocks"]]
    return (" [declared types (begin, end) in order: " + ", ".join(f"B{i}{p}" for i, p in enumerate(pats)) + "; "
            + "; ".join(f"B{i} is derived from B{d['from']} with {own[d['own']]}" for i, d in ds) + "]")


def showx(case):
    return repr(bytes(case["x"])) if case["binary"] else repr(codec.dec_str(case["x"]))


def show(o, binary):
    if not o or "elems" not in o:
        return str(o)
    dec = (lambda a: bytes(a)) if binary else codec.dec_str
    es = []
    for e in o["elems"]:
        if "dflt" in e:
            es.append(f"D({dec(e['dflt'])!r})")
        elif "cls" in e:
            es.append(f"B{e['cls']}({[dec(r) for r in e['raw']]})")
        else:
            es.append(str(e))
    return f"elems={es} written={dec(o['written'])!r}"


def nontrivial(case):
    return len(case["x"]) > 0


def features(case, obs):
    f = ["binary" if case["binary"] else "text", f"nblocks={len(case['blocks'])}"]
    if isinstance(obs, dict) and "elems" in obs:
        ks = sorted({e["cls"] for e in obs["elems"] if "cls" in e})
        f += [f"block_selected={k}" for k in ks]
        f.append("has_default_lines" if any("dflt" in e for e in obs["elems"][1:]) else "no_default_lines")
    ds = [(i, d) for i, d in enumerate(case.get("derive") or []) if d]
    if ds:
        f.append("derived_types")
        f += sorted({f"derived_own_{d['own']}" for _, d in ds})
        f += sorted({"parent_declared_earlier" if d["from"] < i else "parent_declared_later" for i, d in ds})
        if isinstance(obs, dict) and "elems" in obs:
            sel = {e["cls"] for e in obs["elems"] if "cls" in e}
            if any(i in sel for i, _ in ds):
                f.append("derived_type_selected")
    x = case["x"]
    f.append("empty_content" if not x else ("final_newline" if x[-1] == 10 else "no_final_newline"))
    return f


def signature(rec):
    return ("bin" if rec["case"]["binary"] else "txt") + rec["verdict"]["why"][:15]


def matches_known(trigger, case):
    return False


def snippet(case):
    return f"""import sys; sys.path.insert(0, '/verif/harness'); sys.path.insert(0, '/repo')
from props import c12
case = {json.dumps(case)}
print(c12.show(c12.run_impl(case), case['binary']))
"""


# ------------------------------------------------------------------ generators
MARKS = ["BEG", "END", "BE", "EN", "B", "X", "beg", "##", "E"]


def rand_re(rng, depth=0, alphabet="BEGNDX#be "):
    r = rng.random()
    if depth > 2 or r < 0.45:
        t = rng.choice(MARKS)
        return fsup.re_lit(t)
    if r < 0.55:
        return ["any"]
    if r < 0.65:
        return ["set", sorted({ord(rng.choice(alphabet)) for _ in range(rng.randrange(1, 4))})]
    if r < 0.8:
        return ["cat", rand_re(rng, depth + 1), rand_re(rng, depth + 1)]
    if r < 0.92:
        return ["alt", rand_re(rng, depth + 1), rand_re(rng, depth + 1)]
    return ["star", ["chr", ord(rng.choice(alphabet))]]


def rand_pat(rng):
    return {"anchored": rng.random() < 0.3, "re": rand_re(rng)}


def add_derivation(rng, case):
    """with probability 0.35 (two or more types): a random forest over the declared types — each type is, with
    probability 0.5, derived from a type that precedes it in a random BUILD order (so the parent may be declared
    before or after it) and states both patterns (0.6), only the begin (0.2) or only the end pattern (0.2)
    itself; an inherited pattern is, in case["blocks"], the parent's effective pattern"""
    blocks = case["blocks"]
    n = len(blocks)
    if n < 2 or rng.random() >= 0.35:
        return case
    order = list(range(n))
    rng.shuffle(order)
    derive = [None] * n
    for k, i in enumerate(order):
        if k == 0 or rng.random() < 0.5:
            continue
        j = rng.choice(order[:k])
        r = rng.random()
        own = "both" if r < 0.6 else ("begin" if r < 0.8 else "end")
        derive[i] = {"from": j, "own": own}
        if own == "begin":
            blocks[i] = {"begin": blocks[i]["begin"], "end": blocks[j]["end"]}
        elif own == "end":
            blocks[i] = {"begin": blocks[j]["begin"], "end": blocks[i]["end"]}
    if any(derive):
        case["derive"] = derive
    return case


def random_text_case(rng):
    return add_derivation(rng, random_text_case0(rng))


def random_bin_case(rng):
    return add_derivation(rng, random_bin_case0(rng))


def random_text_case0(rng):
    blocks = [{"begin": rand_pat(rng), "end": rand_pat(rng)} for _ in range(rng.randrange(1, 5))]
    lines = []
    for _ in range(fsup.nlines(rng, 12)):
        r = rng.random()
        if r < 0.5:
            l = rng.choice(["", " ", "x ", "  #"]) + rng.choice(MARKS) + rng.choice(["", " 1", "END", " BEG x"])
        elif r < 0.7:
            l = "".join(rng.choice("BEGNDX#be 12" + fsup.NON_ASCII) for _ in range(rng.randrange(0, 10)))
        elif r < 0.8:
            l = ""
        else:
            l = "data " + str(rng.randrange(100))
        lines.append(l + "\n")
    x = "".join(lines)
    if x and rng.random() < 0.35:
        x = x[:-1]
    case = {"binary": False, "blocks": blocks}
    if rng.random() < 0.015:
        # in-memory content that names an existing directory or device
        case["x"] = codec.enc_str(fsup.path_like(rng))
        case["query_in_write"] = False
        return case
    if rng.random() < 0.2 and x:
        # lone carriage returns and CR LF pairs: in memory only "\n" ends a line, nothing is translated
        # (the disk route translates them on reading: outside C16's domain)
        for _ in range(rng.randrange(1, 4)):
            i = rng.randrange(len(x))
            x = x[:i] + "\r" + x[i:]
    else:
        io = fsup.io_of(rng, [x])
        if io:
            case["io"] = io
    case["x"] = codec.enc_str(x)
    case["query_in_write"] = rng.random() < 0.25
    return case


def random_bin_case0(rng):
    marks = [0x01, 0x02, 0x30, 0x31, 0xFF, 0x0A, 0x41]
    blocks = []
    for _ in range(rng.randrange(1, 4)):
        b = rng.choice(marks)
        e = rng.choice(marks)
        bre = ["chr", b] if rng.random() < 0.7 else ["set", sorted({b, rng.choice(marks)})]
        blocks.append({"begin": {"anchored": False, "re": bre}, "end": {"anchored": False, "re": ["chr", e]}})
    x = [rng.choice(marks + [0x20, 0x42, 0x00, 0x7F]) for _ in range(rng.randrange(0, 24))]
    case = {"binary": True, "blocks": blocks, "x": x}
    if rng.random() < 0.25:
        case["io"] = {"enc": "utf-8"}  # the bytes go through a path on disk
    return case


def corpus_cases():
    d = Path(__file__).resolve().parent.parent.parent / "corpus" / PROP
    out = []
    if d.exists():
        for f in sorted(d.glob("*.json")):
            j = json.loads(f.read_text())
            out.append(j["case"] if "case" in j else j)
    return out


def chunks(tier, seed):
    ch = [{"kind": "corpus"}]
    nrand = {"quick": 4000, "thorough": 400000}.get(tier, 12000)
    per = max(1, nrand // 16)
    for i in range(16):
        ch.append({"kind": "random", "seed": seed * 1000 + i, "n": per, "binary": i % 4 == 3})
    return ch


def cases_of(chunk):
    if chunk["kind"] == "corpus":
        yield from corpus_cases()
    else:
        rng = random.Random(chunk["seed"])
        for _ in range(chunk["n"]):
            yield random_bin_case(rng) if chunk["binary"] else random_text_case(rng)


def shrinks(case):
    if case["binary"]:
        x = case["x"]
        for i in range(len(x)):
            yield {**case, "x": x[:i] + x[i + 1 :]}
    else:
        lines = codec.dec_str(case["x"]).splitlines(True)
        for i in range(len(lines)):
            yield {**case, "x": codec.enc_str("".join(lines[:i] + lines[i + 1 :]))}
    n = len(case["blocks"])
    derive = case.get("derive")
    if derive:
        # the same effective patterns on stand-alone types, then one derivation less
        yield {k: v for k, v in case.items() if k != "derive"}
        for i, d in enumerate(derive):
            if d:
                yield {**case, "derive": derive[:i] + [None] + derive[i + 1 :]}
    if n > 1:
        for i in range(n):
            c = {**case, "blocks": case["blocks"][:i] + case["blocks"][i + 1 :]}
            if derive:
                # case["blocks"] holds effective patterns, so the children of a removed type stay valid as
                # stand-alone types
                nd = []
                for k, d in enumerate(derive):
                    if k == i:
                        continue
                    if d and d["from"] == i:
                        d = None
                    elif d:
                        d = {**d, "from": d["from"] - (1 if d["from"] > i else 0)}
                    nd.append(d)
                c["derive"] = nd
            yield c
