"""C12 — block files: begin-pattern dispatch, full accounting, verbatim round trip."""
from __future__ import annotations

import json
import random
import zlib
from io import BytesIO, StringIO
from pathlib import Path

import codec
import filesupport as fsup

PROP = "C12"
LEAN_MODULES = ["Props.C12", "Props.Legacy"]
RULE = (
    "case = (storage text|binary, 1-4 raw-storing block types with regular-expression begin/end patterns from a small "
    "AST (literals, '.', sets, concatenation, alternation, star, optional '^') that match mid-line and overlap so "
    "that declaration order matters; content with nested-looking markers, unterminated blocks, markers on the last "
    "line without newline, empty content; binary storage with one-byte markers). In about a third of the cases with "
    "two or more block types some declared types are DERIVED from other declared types of the same list (declared "
    "before or after them, chains allowed) and state their own BEGIN_PATTERN and/or END_PATTERN in place of the "
    "inherited one (a new version of a block): a type's patterns are the ones it resolves to, however it came by "
    "them, so the expectation is the model's for the flat list of effective patterns. In about a third of the cases "
    "OTHER block files (one or two, block lists and in-memory contents of their own from the same generators, of the "
    "other storage kind as often as of the same one) are read and written in the same process around the observed "
    "file: before its read, between its read and its write, or DURING its read from inside the read() of some of "
    "its declared block types (a block that parses an embedded payload with a block file, before or after it "
    "consumes its own lines); the statement is about one file and its declared list, so the expectation stays the "
    "model's for the observed file alone, and every other file must itself come back complete (stored raw data "
    "concatenate to its content) and be written verbatim. In about three cases in ten (drawn from a random stream "
    "of its own, seeded by the case) the observed file class belongs to a FAMILY of file classes: it is derived from "
    "a user file class that declares another BLOCKS list of the same storage, or a user file class declaring another "
    "list is derived from it, or it is one class whose BLOCKS is re-assigned after class creation (first the other "
    "list, then the observed one); the relative (the first declaration) is, or is not, read and written with a "
    "content of its own before the observed read and/or between the observed read and write: the declared list of a "
    "read is the BLOCKS the class resolves to at that moment, so the expectation stays the model's for the observed "
    "list alone and the relative must come back complete and verbatim. BlockFile.read(x) then "
    "BlockFile.write(buffer) on the real code; observed: class and stored raw data of every element, the written "
    "output. Judged by Spec.C12.holds (elements = the dispatch refinement readBlockFile; raw data concatenate to x; "
    "output == x) and compared with the model. non-trivial = at least one declared block is selected; distinct by "
    "full case."
)
ASSUMPTIONS = [
    "blocks are the harness's raw-storing blocks (store the lines / bytes they consume up to and including the first unit matching END_PATTERN, or to the end of input)",
    "regular expressions are limited to the harness AST; Python's re is compared with the Lean derivative matcher on every case (trusted only in the correspondence, the theorems are parametric in begins/ends)",
]
TRUSTED = ["Python re.search for the AST subset"]
EXHAUSTIVE = {"quick": False, "thorough": False}


_BUILT = {}


def use_other(o, log):
    """read the other block file `o["file"]` (a case of its own, in memory) and write it; what the property says
    of every block file with raw-storing blocks — nothing lost, nothing duplicated, written verbatim — is recorded
    in `log` (exceptions propagate to whoever asked)"""
    c = o["file"]
    binary = c["binary"]
    built = _BUILT.get(id(o))
    if built is None or built[0] is not o:
        # the other file's types are declared once per case, like the observed file's
        if len(_BUILT) > 8:
            _BUILT.clear()
        built = _BUILT[id(o)] = (o,) + tuple(fsup.mk_block_file(c["blocks"], binary, classes=block_classes0(c)))
    _, BF, classes = built
    read_write_check(BF, classes, c, o["when"], log)


def read_write_check(BF, classes, c, when, log, who="another block file"):
    binary = c["binary"]
    x = bytes(c["x"]) if binary else codec.dec_str(c["x"])
    f = BF.read(x)
    parts = []
    for e in fsup.capped(f.data, len(x) + 5)[1:]:
        enc = fsup.enc_belem(e, classes, binary)
        parts += [enc["dflt"]] if "dflt" in enc else enc.get("raw", [None])
    w = fsup.write_text(f, None, binary)
    dec = (lambda a: bytes(a)) if binary else codec.dec_str
    empty = b"" if binary else ""
    try:
        kept = empty.join(dec(r) for r in parts)
    except Exception:
        kept = None
    if kept != x or w != x:
        log.append({"when": when, "kept": repr(kept), "written": repr(w), "who": who})


def file_class(base, classes, binary, io=None):
    """a file class derived from `base` (BlockFile or a user file class) that declares BLOCKS = classes itself"""
    ns = {"BLOCKS": classes, "STORAGE": "BINARY" if binary else fsup.text_storage("TEXT", len(classes)), "__slots__": []}
    if io:
        ns["ENCODING"] = io["enc"]
    return fsup.derived(type("BF", (base,), ns), len(classes))


class Family:
    """the observed file class and, with case["family"] = {"rel": "parent"|"child"|"redeclare", "file": a case
    of the same storage (the relative's declared list and content), "uses": sub-list of ["before", "between"]},
    its relative: "parent" — the observed class is derived from the relative and declares its own BLOCKS;
    "child" — the relative is derived from the observed class and declares its own BLOCKS; "redeclare" — one
    class, created with the relative's list, whose BLOCKS is assigned the observed list before the observed read
    (and the relative's list again for a use "between").  use(when) reads and writes the relative's content with
    the relative's declaration if `when` is among "uses"."""

    def __init__(self, case, classes, log):
        from cfinterface.files.blockfile import BlockFile

        self.fam = fam = case.get("family")
        self.log = log
        binary, io = case["binary"], case.get("io")
        self.classes = classes
        if not fam:
            self.BF = file_class(BlockFile, classes, binary, io)
            return
        c = fam["file"]
        self.rclasses = rclasses = block_classes0(c)
        if fam["rel"] == "parent":
            self.R = file_class(BlockFile, rclasses, binary)
            self.BF = file_class(self.R, classes, binary, io)
        elif fam["rel"] == "child":
            self.BF = file_class(BlockFile, classes, binary, io)
            self.R = file_class(self.BF, rclasses, binary)
        else:
            self.BF = self.R = file_class(BlockFile, rclasses, binary, io)

    def use(self, when):
        fam = self.fam
        if not fam:
            return
        redeclare = fam["rel"] == "redeclare"
        if when in fam["uses"]:
            if redeclare:
                self.R.BLOCKS = self.rclasses
            read_write_check(self.R, self.rclasses, fam["file"], when, self.log, who="the relative of the observed file class (its declaration: see the family)")
        if redeclare:
            # the observed declaration from here on
            self.BF.BLOCKS = self.classes


def block_classes(case, log=None):
    """block_classes0, and for every entry of case["others"] with "when" = "during": the declared types named in
    its "types" are given a read() that also reads (and writes) the other file, before ("first") or after
    ("last") consuming their own lines with the read() they had"""
    out = list(block_classes0(case))
    log = log if log is not None else []
    for o in case.get("others") or []:
        if o["when"] != "during":
            continue
        for i in o["types"]:
            if i >= len(out):
                continue
            out[i] = with_nested_read(out[i], o, log)
    return out


def with_nested_read(base, o, log):
    def read(self, file, *args, **kwargs):
        if o["pos"] == "first":
            use_other(o, log)
        r = base.read(self, file, *args, **kwargs)
        if o["pos"] == "last":
            use_other(o, log)
        return r

    return type(base.__name__, (base,), {"__slots__": [], "read": read})


def block_classes0(case):
    """the declared block types.  Without "derive": the harness's stand-alone types.  With it, entry i is
    None or {"from": j, "own": "both"|"begin"|"end"}: type i is a subclass of declared type j that states the
    named patterns itself and inherits the rest (read / write and, where not its own, a pattern — the
    generator makes case["blocks"][i] the EFFECTIVE patterns, i.e. equal to j's where inherited)."""
    binary = case["binary"]
    flat = fsup.mk_block_classes(case["blocks"], binary)
    derive = case.get("derive")
    if not derive or not any(derive):
        return flat
    out = [None] * len(flat)
    todo = list(range(len(flat)))
    while todo:
        progressed = False
        for i in list(todo):
            d = derive[i] if i < len(derive) else None
            if not d:
                out[i] = flat[i]
            elif out[d["from"]] is not None:
                ns = {"__slots__": []}
                if d["own"] in ("both", "begin"):
                    ns["BEGIN_PATTERN"] = flat[i].BEGIN_PATTERN
                if d["own"] in ("both", "end"):
                    ns["END_PATTERN"] = flat[i].END_PATTERN
                out[i] = fsup.derived(type(f"Blk{i}", (out[d["from"]],), ns), i)
            else:
                continue
            todo.remove(i)
            progressed = True
        if not progressed:
            raise ValueError("cyclic derivation in the case")
    return out


def run_impl(case):
    binary = case["binary"]
    log = []
    others = case.get("others") or []
    try:
        for o in others:
            if o["when"] == "before":
                use_other(o, log)
        classes = block_classes(case, log)
        fam = Family(case, classes, log)
        BF = fam.BF
        fam.use("before")
        x = bytes(case["x"]) if binary else codec.dec_str(case["x"])
        f = fsup.read_text(BF, x, case.get("io"))
        for o in others:
            if o["when"] == "between":
                use_other(o, log)
        fam.use("between")
        cap = len(x) + 5
        elems = [fsup.enc_belem(e, classes, binary) for e in fsup.capped(f.data, cap)]
        w = fsup.write_text(f, case.get("io"), binary, (f.data,) if case.get("query_in_write") else ())
        out = {"elems": elems, "written": list(w) if binary else codec.enc_str(w)}
        if log:
            out["others_bad"] = log[:3]
        return out
    except Exception as e:
        return codec.enc_exc(e)


def request(case, obs):
    if "harness_exc" in obs:
        obs = {"exc": "harness"}
    if "elems" in obs and any("dflt_none" in e for e in obs["elems"]):
        obs = {"exc": "DefaultWithNoneData"}
    return {"op": "c12", "binary": case["binary"], "blocks": case["blocks"], "x": case["x"], "obs": obs}


def judge(case, obs, resp):
    if "error" in resp:
        return {"status": "error", "why": resp["error"]}
    if "harness_exc" in obs:
        return {"status": "error", "why": f"harness: {obs['harness_exc']} {obs.get('msg')}"}
    if not resp["model_holds"]:
        return {"status": "error", "why": f"the MODEL violates Spec.C12.holds: {show(resp.get('model'), case['binary'])}"}
    if "exc" in obs:
        return {"status": "oracle", "why": f"BlockFile read/write raised {obs['exc']}: {obs.get('msg')}{show_derive(case)}{show_family(case)}{show_others(case)}"}
    if not resp["holds"]:
        return {"status": "oracle", "why": f"x={showx(case)}{show_derive(case)}{show_family(case)}{show_others(case)}: got {show(obs, case['binary'])}; required {show(resp.get('model'), case['binary'])}"}
    if obs.get("others_bad"):
        b = obs["others_bad"][0]
        return {"status": "oracle", "why": f"{b.get('who', 'another block file')}, read and written {b['when']} the read of the observed one, did not come back verbatim: kept {b['kept']}, written {b['written']}{show_family(case)}{show_others(case)}"}
    if not resp["agree"]:
        return {"status": "corr", "why": "model and implementation disagree"}
    return {"status": "ok", "why": ""}


def show_derive(case):
    ds = [(i, d) for i, d in enumerate(case.get("derive") or []) if d]
    if not ds:
        return ""
    own = {"both": "its own begin and end patterns", "begin": "its own begin pattern", "end": "its own end pattern"}
    pats = [(fsup.pat_render(b["begin"], case["binary"]), fsup.pat_render(b["end"], case["binary"])) for b in case["blocks"]]
    return (" [declared types (begin, end) in order: " + ", ".join(f"B{i}{p}" for i, p in enumerate(pats)) + "; "
            + "; ".join(f"B{i} is derived from B{d['from']} with {own[d['own']]}" for i, d in ds) + "]")


def show_others(case):
    os_ = case.get("others") or []
    if not os_:
        return ""
    out = []
    for o in os_:
        c = o["file"]
        pats = ", ".join(f"({fsup.pat_render(b['begin'], c['binary'])!r}, {fsup.pat_render(b['end'], c['binary'])!r})" for b in c["blocks"])
        where = {"before": "before the observed read", "between": "between the observed read and write",
                 "during": f"inside read() of B{o.get('types')} ({'before' if o.get('pos') == 'first' else 'after'} its own lines)"}[o["when"]]
        out.append(f"a {'BINARY' if c['binary'] else 'TEXT'} block file with types [{pats}] and content {showx(c)} read and written {where}")
    return " [other files in the same process: " + "; ".join(out) + "]"


def show_family(case):
    fam = case.get("family")
    if not fam:
        return ""
    c = fam["file"]
    pats = ", ".join(f"({fsup.pat_render(b['begin'], c['binary'])!r}, {fsup.pat_render(b['end'], c['binary'])!r})" for b in c["blocks"])
    mine = ", ".join(f"({fsup.pat_render(b['begin'], case['binary'])!r}, {fsup.pat_render(b['end'], case['binary'])!r})" for b in case["blocks"])
    how = {"parent": f"the observed file class (BLOCKS [{mine}]) is DERIVED from a user file class declaring BLOCKS [{pats}]",
           "child": f"a user file class declaring BLOCKS [{pats}] is DERIVED from the observed file class (BLOCKS [{mine}])",
           "redeclare": f"the observed file class was created with BLOCKS [{pats}] and its BLOCKS was then ASSIGNED [{mine}]"}[fam["rel"]]
    if fam["uses"]:
        what = "that first declaration" if fam["rel"] == "redeclare" else "that relative"
        how += f"; {what} was read and written with content {showx(c)} " + " and ".join(
            {"before": "before the observed read", "between": "between the observed read and write"}[u] for u in fam["uses"])
    else:
        how += "; nothing else was read"
    return f" [family: {how}]"


def showx(case):
    return repr(bytes(case["x"])) if case["binary"] else repr(codec.dec_str(case["x"]))


def show(o, binary):
    if not o or "elems" not in o:
        return str(o)
    dec = (lambda a: bytes(a)) if binary else codec.dec_str
    es = []
    for e in o["elems"]:
        if "dflt" in e:
            es.append(f"D({dec(e['dflt'])!r})")
        elif "cls" in e:
            es.append(f"B{e['cls']}({[dec(r) for r in e['raw']]})")
        else:
            es.append(str(e))
    return f"elems={es} written={dec(o['written'])!r}"


def nontrivial(case):
    return len(case["x"]) > 0


def features(case, obs):
    f = ["binary" if case["binary"] else "text", f"nblocks={len(case['blocks'])}"]
    if isinstance(obs, dict) and "elems" in obs:
        ks = sorted({e["cls"] for e in obs["elems"] if "cls" in e})
        f += [f"block_selected={k}" for k in ks]
        f.append("has_default_lines" if any("dflt" in e for e in obs["elems"][1:]) else "no_default_lines")
    ds = [(i, d) for i, d in enumerate(case.get("derive") or []) if d]
    if ds:
        f.append("derived_types")
        f += sorted({f"derived_own_{d['own']}" for _, d in ds})
        f += sorted({"parent_declared_earlier" if d["from"] < i else "parent_declared_later" for i, d in ds})
        if isinstance(obs, dict) and "elems" in obs:
            sel = {e["cls"] for e in obs["elems"] if "cls" in e}
            if any(i in sel for i, _ in ds):
                f.append("derived_type_selected")
    for o in case.get("others") or []:
        f.append(f"other_file_{o['when']}")
        f.append("other_file_of_other_storage" if o["file"]["binary"] != case["binary"] else "other_file_of_same_storage")
        if o["when"] == "during" and isinstance(obs, dict) and "elems" in obs:
            if {e["cls"] for e in obs["elems"] if "cls" in e} & set(o["types"]):
                f.append("other_file_read_during_took_place")
    fam = case.get("family")
    if fam:
        f.append(f"family_{fam['rel']}")
        f += [f"relative_read_{u}" for u in fam["uses"]] or ["relative_never_read"]
    x = case["x"]
    f.append("empty_content" if not x else ("final_newline" if x[-1] == 10 else "no_final_newline"))
    return f


def signature(rec):
    return ("bin" if rec["case"]["binary"] else "txt") + rec["verdict"]["why"][:15]


def matches_known(trigger, case):
    return False


def snippet(case):
    return f"""import sys; sys.path.insert(0, '/verif/harness'); sys.path.insert(0, '/repo')
from props import c12
case = {json.dumps(case)}
print(c12.show(c12.run_impl(case), case['binary']))
"""


# ------------------------------------------------------------------ generators
MARKS = ["BEG", "END", "BE", "EN", "B", "X", "beg", "##", "E"]


def rand_re(rng, depth=0, alphabet="BEGNDX#be "):
    r = rng.random()
    if depth > 2 or r < 0.45:
        t = rng.choice(MARKS)
        return fsup.re_lit(t)
    if r < 0.55:
        return ["any"]
    if r < 0.65:
        return ["set", sorted({ord(rng.choice(alphabet)) for _ in range(rng.randrange(1, 4))})]
    if r < 0.8:
        return ["cat", rand_re(rng, depth + 1), rand_re(rng, depth + 1)]
    if r < 0.92:
        return ["alt", rand_re(rng, depth + 1), rand_re(rng, depth + 1)]
    return ["star", ["chr", ord(rng.choice(alphabet))]]


def rand_pat(rng):
    return {"anchored": rng.random() < 0.3, "re": rand_re(rng)}


def add_derivation(rng, case):
    """with probability 0.35 (two or more types): a random forest over the declared types — each type is, with
    probability 0.5, derived from a type that precedes it in a random BUILD order (so the parent may be declared
    before or after it) and states both patterns (0.6), only the begin (0.2) or only the end pattern (0.2)
    itself; an inherited pattern is, in case["blocks"], the parent's effective pattern"""
    blocks = case["blocks"]
    n = len(blocks)
    if n < 2 or rng.random() >= 0.35:
        return case
    order = list(range(n))
    rng.shuffle(order)
    derive = [None] * n
    for k, i in enumerate(order):
        if k == 0 or rng.random() < 0.5:
            continue
        j = rng.choice(order[:k])
        r = rng.random()
        own = "both" if r < 0.6 else ("begin" if r < 0.8 else "end")
        derive[i] = {"from": j, "own": own}
        if own == "begin":
            blocks[i] = {"begin": blocks[i]["begin"], "end": blocks[j]["end"]}
        elif own == "end":
            blocks[i] = {"begin": blocks[j]["begin"], "end": blocks[i]["end"]}
    if any(derive):
        case["derive"] = derive
    return case


def add_others(rng, case):
    """with probability 0.35: one (0.7) or two other block files — binary or text with equal probability whatever
    the observed storage, drawn from the same generators, in memory — each used before the observed read (0.25),
    between the observed read and write (0.25) or during the read (0.5): then inside read() of each declared
    type with probability 0.6 (at least one), before (0.5) or after its own lines"""
    if rng.random() >= 0.35:
        return case
    others = []
    for _ in range(1 if rng.random() < 0.7 else 2):
        c = add_derivation(rng, random_bin_case0(rng) if rng.random() < 0.5 else random_text_case0(rng))
        c = {k: v for k, v in c.items() if k in ("binary", "blocks", "x", "derive")}
        r = rng.random()
        o = {"when": "before" if r < 0.25 else ("between" if r < 0.5 else "during"), "file": c}
        if o["when"] == "during":
            n = len(case["blocks"])
            ts = [i for i in range(n) if rng.random() < 0.6] or [rng.randrange(n)]
            o["types"] = ts
            o["pos"] = "first" if rng.random() < 0.5 else "last"
        others.append(o)
    case["others"] = others
    return case


def add_family(case):
    """with probability 0.3, from a random stream of its own seeded by the case (the streams of the other
    dimensions stay as they were): the observed file class gets a relative — its parent (0.4), a child (0.3), or
    an earlier declaration of the same class (0.3) — with a declared list and a content of the same storage from
    the same generators, read and written before the observed read (0.7) and/or between the observed read and
    write (0.3)"""
    rng = random.Random(zlib.crc32(json.dumps(case, sort_keys=True).encode()))
    if rng.random() >= 0.3:
        return case
    c = add_derivation(rng, random_bin_case0(rng) if case["binary"] else random_text_case0(rng))
    c = {k: v for k, v in c.items() if k in ("binary", "blocks", "x", "derive")}
    r = rng.random()
    rel = "parent" if r < 0.4 else ("child" if r < 0.7 else "redeclare")
    uses = [u for u, p in (("before", 0.7), ("between", 0.3)) if rng.random() < p]
    case["family"] = {"rel": rel, "file": c, "uses": uses}
    return case


def random_text_case(rng):
    return add_family(add_others(rng, add_derivation(rng, random_text_case0(rng))))


def random_bin_case(rng):
    return add_family(add_others(rng, add_derivation(rng, random_bin_case0(rng))))


def random_text_case0(rng):
    blocks = [{"begin": rand_pat(rng), "end": rand_pat(rng)} for _ in range(rng.randrange(1, 5))]
    lines = []
    for _ in range(fsup.nlines(rng, 12)):
        r = rng.random()
        if r < 0.5:
            l = rng.choice(["", " ", "x ", "  #"]) + rng.choice(MARKS) + rng.choice(["", " 1", "END", " BEG x"])
        elif r < 0.7:
            l = "".join(rng.choice("BEGNDX#be 12" + fsup.NON_ASCII) for _ in range(rng.randrange(0, 10)))
        elif r < 0.8:
            l = ""
        else:
            l = "data " + str(rng.randrange(100))
        lines.append(l + "\n")
    x = "".join(lines)
    if x and rng.random() < 0.35:
        x = x[:-1]
    case = {"binary": False, "blocks": blocks}
    if rng.random() < 0.015:
        # in-memory content that names an existing directory or device
        case["x"] = codec.enc_str(fsup.path_like(rng))
        case["query_in_write"] = False
        return case
    if rng.random() < 0.2 and x:
        # lone carriage returns and CR LF pairs: in memory only "\n" ends a line, nothing is translated
        # (the disk route translates them on reading: outside C16's domain)
        for _ in range(rng.randrange(1, 4)):
            i = rng.randrange(len(x))
            x = x[:i] + "\r" + x[i:]
    else:
        io = fsup.io_of(rng, [x])
        if io:
            case["io"] = io
    case["x"] = codec.enc_str(x)
    case["query_in_write"] = rng.random() < 0.25
    return case


def random_bin_case0(rng):
    marks = [0x01, 0x02, 0x30, 0x31, 0xFF, 0x0A, 0x41]
    blocks = []
    for _ in range(rng.randrange(1, 4)):
        b = rng.choice(marks)
        e = rng.choice(marks)
        bre = ["chr", b] if rng.random() < 0.7 else ["set", sorted({b, rng.choice(marks)})]
        blocks.append({"begin": {"anchored": False, "re": bre}, "end": {"anchored": False, "re": ["chr", e]}})
    x = [rng.choice(marks + [0x20, 0x42, 0x00, 0x7F]) for _ in range(rng.randrange(0, 24))]
    case = {"binary": True, "blocks": blocks, "x": x}
    if rng.random() < 0.25:
        case["io"] = {"enc": "utf-8"}  # the bytes go through a path on disk
    return case


def corpus_cases():
    d = Path(__file__).resolve().parent.parent.parent / "corpus" / PROP
    out = []
    if d.exists():
        for f in sorted(d.glob("*.json")):
            j = json.loads(f.read_text())
            out.append(j["case"] if "case" in j else j)
    return out


def chunks(tier, seed):
    ch = [{"kind": "corpus"}]
    nrand = {"quick": 4000, "thorough": 400000}.get(tier, 12000)
    per = max(1, nrand // 16)
    for i in range(16):
        ch.append({"kind": "random", "seed": seed * 1000 + i, "n": per, "binary": i % 4 == 3})
    return ch


def cases_of(chunk):
    if chunk["kind"] == "corpus":
        yield from corpus_cases()
    else:
        rng = random.Random(chunk["seed"])
        for _ in range(chunk["n"]):
            yield random_bin_case(rng) if chunk["binary"] else random_text_case(rng)


def shrinks(case):
    if case["binary"]:
        x = case["x"]
        for i in range(len(x)):
            yield {**case, "x": x[:i] + x[i + 1 :]}
    else:
        lines = codec.dec_str(case["x"]).splitlines(True)
        for i in range(len(lines)):
            yield {**case, "x": codec.enc_str("".join(lines[:i] + lines[i + 1 :]))}
    n = len(case["blocks"])
    others = case.get("others")
    if others:
        yield {k: v for k, v in case.items() if k != "others"}
        for i in range(len(others)):
            yield {**case, "others": others[:i] + others[i + 1 :]}
        for i, o in enumerate(others):
            if o["when"] == "during" and len(o["types"]) > 1:
                for t in o["types"]:
                    yield {**case, "others": others[:i] + [{**o, "types": [u for u in o["types"] if u != t]}] + others[i + 1 :]}
            for c in shrinks(o["file"]):
                yield {**case, "others": others[:i] + [{**o, "file": c}] + others[i + 1 :]}
    fam = case.get("family")
    if fam:
        yield {k: v for k, v in case.items() if k != "family"}
        for u in fam["uses"]:
            yield {**case, "family": {**fam, "uses": [v for v in fam["uses"] if v != u]}}
        for c in shrinks(fam["file"]):
            yield {**case, "family": {**fam, "file": c}}
    derive = case.get("derive")
    if derive:
        # the same effective patterns on stand-alone types, then one derivation less
        yield {k: v for k, v in case.items() if k != "derive"}
        for i, d in enumerate(derive):
            if d:
                yield {**case, "derive": derive[:i] + [None] + derive[i + 1 :]}
    if n > 1:
        for i in range(n):
            c = {**case, "blocks": case["blocks"][:i] + case["blocks"][i + 1 :]}
            if derive:
                # case["blocks"] holds effective patterns, so the children of a removed type stay valid as
                # stand-alone types
                nd = []
                for k, d in enumerate(derive):
                    if k == i:
                        continue
                    if d and d["from"] == i:
                        d = None
                    elif d:
                        d = {**d, "from": d["from"] - (1 if d["from"] > i else 0)}
                    nd.append(d)
                c["derive"] = nd
            if others:
                no = []
                for o in others:
                    if o["when"] == "during":
                        ts = [t - (1 if t > i else 0) for t in o["types"] if t != i]
                        if not ts:
                            continue
                        o = {**o, "types": ts}
                    no.append(o)
                c["others"] = no
            yield c
