"""C18 — reading terminates: every step consumes input."""
from __future__ import annotations

import json
import random
import warnings
from pathlib import Path

import codec
import filesupport as fsup
from props import c04, c10, c12, c13

PROP = "C18"
LEAN_MODULES = ["Props.C18", "Props.Legacy", "Props.C18B"]
RULE = (
    "case = (file family register|block|section, storage text|binary, declared component list, content: garbage, "
    "empty lines, content matching nothing, truncated binary records, well-formed content; one text content in fifty holds a line of 8191-17000 characters). File.read(content) on the "
    "real code with a counter on the data container's append(); the read is aborted by the harness when the counter "
    "exceeds the deterministic budget 2*(1+units+sections)+8 (units = lines in text storage, bytes in binary "
    "storage); a second counter on the dispatch tests (Register.matches / Block.begins) bounds the steps that create no element. Binary register contents with bytes that are not valid UTF-8 are judged through their ASCII twin (the original must end too, by returning or by raising); three text register cases in a hundred are read from a PATH, larger than one decoding chunk, with an undecodable byte late in the file (raising or returning, within the element bound). Judged by Spec.C18.holds (the read returned and created at most units(+declared sections) elements) "
    "and compared with the model's element count. "
    "History: three generated cases in ten (choices drawn from a separate random stream derived from the case) run one or two EARLIER reads with the same file class "
    "(its own content, once or twice over) before the observed read - completed, interrupted by an exception raised out of the k-th append, or aborted by an exception raised by the k-th "
    "(one case in four: first of all a file class of the OTHER storage that declares the same component types reads the content) "
    "element's read() and caught by the application; the observed read is judged exactly as the model computes it for its content ALONE (earlier reads leave nothing behind), and the "
    "elements of the file that File.read RETURNS are counted as well as the append() calls (elements = returned elements minus the placeholder). "
    "Route: one text case in four (register, block and section files alike; choices from a further random stream of their own) hands File.read a PATH instead of the content: the content lies on disk in the "
    "ENCODING the file class declares (utf-8 or latin-1), its lines ended by LF, CR LF or a lone CR, in half of these cases with a few characters replaced by non-ASCII ones (a character is then not a byte, and a line end not one character); the earlier reads of the history go the same way, and the read is judged exactly as the model computes it for the TEXT (lines ended by LF) that such a file holds. "
    "non-trivial = non-empty content; distinct by full case."
)
ASSUMPTIONS = [
    "binary register records are at least one byte wide and the peek window (linesize) covers every identifier window",
    "in binary register files identifier windows decode as UTF-8 (a str IDENTIFIER is searched in the decoded window; otherwise UnicodeDecodeError propagates, which is termination but outside the modelled domain)",
    "user blocks/sections are the harness's raw-storing ones (they consume at least one unit when input remains)",
]
TRUSTED = []
EXHAUSTIVE = {"quick": False, "thorough": False}


class BudgetExceeded(BaseException):
    pass


def count_appends(container_cls, budget, fn, ntypes=1):
    """runs fn() with a counter on the container's append() AND on the dispatch tests of the reading loops
    (Register.matches / Block.begins: at most one call per declared type and step) — a step that creates no
    element (and consumes nothing) is a step all the same"""
    from cfinterface.components.block import Block
    from cfinterface.components.register import Register

    orig = container_cls.append
    n, d = [0], [0]
    dbudget = (budget + 2) * (ntypes + 1)

    def counted(self, x):
        n[0] += 1
        if n[0] > budget:
            raise BudgetExceeded()
        return orig(self, x)

    orig_matches = Register.__dict__["matches"]
    orig_begins = Block.__dict__["begins"]

    def matches(cls, *a, **k):
        d[0] += 1
        if d[0] > dbudget:
            raise BudgetExceeded()
        return orig_matches.__func__(cls, *a, **k)

    def begins(cls, *a, **k):
        d[0] += 1
        if d[0] > dbudget:
            raise BudgetExceeded()
        return orig_begins.__func__(cls, *a, **k)

    container_cls.append = counted
    Register.matches = classmethod(matches)
    Block.begins = classmethod(begins)
    try:
        res = fn()
        out = {"returned": True, "appends": n[0]}
        data = getattr(res, "data", None)
        if data is not None:
            # what File.read hands back: the elements of the returned file (placeholder included), counted
            # with a cap (a container whose iteration does not end is not an answer either)
            cap, m = 4 * budget + 64, 0
            for _ in data:
                m += 1
                if m >= cap:
                    break
            out["elements"] = m
        return out
    except BudgetExceeded:
        return {"returned": False, "appends": n[0]}
    finally:
        container_cls.append = orig
        Register.matches = orig_matches
        Block.begins = orig_begins


class ElementFailed(ValueError):
    pass


def failing_element(classes, k):
    """context: the k-th call (k >= 1) of an element's read() raises (an element that cannot make sense of its
    lines: the application catches the exception and goes on with other files)"""
    import contextlib

    @contextlib.contextmanager
    def cm():
        seen = []
        for c in classes:
            if c not in seen:
                seen.append(c)
        origs = {c: c.read for c in seen}
        own = {c: c.__dict__.get("read") for c in seen}
        n = [0]
        for c in seen:

            def wrapper(self, *a, _o=origs[c], **kw):
                n[0] += 1
                if n[0] >= k:
                    raise ElementFailed("element cannot be read")
                return _o(self, *a, **kw)

            c.read = wrapper
        try:
            yield
        finally:
            for c in seen:
                if own[c] is None:
                    del c.read
                else:
                    c.read = own[c]

    return cm()


def other_storage_class(F, attr, binary):
    """a second file class of the same family that declares the SAME component types under the other storage
    (one record layout used by a binary and by a text format of a deck)"""
    base = [b for b in F.__mro__ if b.__module__.startswith("cfinterface.files")][0]
    return type("OtherStorage", (base,), {attr: list(getattr(F, attr)), "STORAGE": "TEXT" if binary else "BINARY", "__slots__": []})


def run_history(case, read, classes, x, budget, other=None):
    """the earlier reads of case["before"], with the same file class: whatever they do (return, raise, get
    interrupted) is the application's business and is not judged here; `read(content, budget)`"""
    done = []
    for h in case.get("before") or []:
        w = x * h.get("times", 1)
        wb = budget * h.get("times", 1) + 8
        try:
            if h["mode"] == "other_storage":
                # the same component types were used by a file class of the OTHER storage first
                if other is not None:
                    other(x)
                done.append("returned")
            elif h["mode"] == "interrupt":
                o = read(w, h["k"])  # the (k+1)-th append raises
                done.append("interrupted" if not o["returned"] else "returned")
            elif h["mode"] == "element":
                with failing_element(classes, h["k"]):
                    read(w, wb)
                done.append("returned")
            else:
                read(w, wb)
                done.append("returned")
        except Exception as e:
            done.append(type(e).__name__)
    return done


def describe_history(case):
    hs = case.get("before") or []
    if not hs:
        return ""
    words = {
        "interrupt": "a read of {c} interrupted by an exception out of append number {k1}",
        "element": "a read of {c} aborted by an exception raised by the read() of element number {k}",
        "complete": "a completed read of {c}",
        "other_storage": "a read of {c} by a file class of the OTHER storage declaring the same component types",
    }
    parts = [words[h["mode"]].format(c="the same content" if h.get("times", 1) == 1 else "the same content twice over", k=h.get("k", 0), k1=h.get("k", 0) + 1) for h in hs]
    return "after " + " and ".join(parts) + " with the same file class: "


def routed(case, F):
    """how a content reaches F.read: as it is (in memory), or — case["path"] = {"enc", "eol"} — as the PATH of a
    file on disk that holds it in the declared ENCODING with the line ends of the platform it came from"""
    io = case.get("path")
    if not io:
        return lambda content: F.read(content)
    return lambda content: fsup.read_text(F, content.replace("\n", io["eol"]).encode(io["enc"]), io)


def describe_route(case):
    io = case.get("path")
    if not io:
        return ""
    return f"content read from a PATH (encoding {io['enc']}, lines ended by {io['eol']!r}): "


def twin_of(x: bytes) -> bytes:
    return bytes(b if b < 128 else 0x7A for b in x)


def units_of(case):
    if case["binary"]:
        return len(case["x"])
    return len(codec.dec_str(case["x"]).splitlines(True)) if case["x"] else 0


def bad_byte_path_check(case):
    """text register file read from a PATH: larger than one decoding chunk, with one byte that is not valid in
    the declared encoding late in the file.  The read ends by raising UnicodeDecodeError or by returning, and
    in either case within the element bound (lines + placeholder)"""
    import os
    import shutil
    import tempfile

    from cfinterface.data.registerdata import RegisterData

    x = codec.dec_str(case["x"]) or "filler line\n"
    if not x.endswith("\n"):
        x += "\n"
    text = (x * (14000 // len(x) + 1)).encode("utf-8", "replace")
    # 0xE3 opens a three-byte sequence: put in front of an ASCII byte it can never be decoded
    pos = next(i for i in range(len(text) - 20, 0, -1) if text[i] < 128)
    data = text[:pos] + b"\xe3" + text[pos:]
    # the lines the reader will see: a path is opened in text mode with universal newlines, so a lone CR and
    # CR LF end a line as LF does (a content with carriage returns used to be counted by its LFs only, and the
    # read was then reported for "more elements than lines": a false alarm of this harness, appendix G)
    import re as _re

    nlines = len(_re.findall(rb"\r\n|\r|\n", data)) + (0 if data.endswith((b"\n", b"\r")) else 1)
    budget = nlines + 1
    d = tempfile.mkdtemp(prefix="cfi_c18_")
    try:
        path = os.path.join(d, "deck.txt")
        with open(path, "wb") as fh:
            fh.write(data)
        RF, _ = fsup.mk_register_file(case["regs"], "TEXT")
        try:
            o = count_appends(RegisterData, budget, lambda: RF.read(path), len(case["regs"]))
            ok = bool(o["returned"])
            why = f"returned={o['returned']} appends={o['appends']} lines={nlines}"
        except UnicodeDecodeError:
            ok, why = True, "raised UnicodeDecodeError"
        return {"checks": {"read_of_a_path_with_an_undecodable_byte_ends_within_the_element_bound": ok}, "detail": why}
    finally:
        shutil.rmtree(d, ignore_errors=True)


def run_impl(case):
    if case.get("bad_byte_path"):
        try:
            return bad_byte_path_check(case)
        except Exception as e:
            return codec.enc_exc(e)
    fam, binary = case["family"], case["binary"]
    x = bytes(case["x"]) if binary and case["family"] != "section" else codec.dec_str(case["x"])
    if binary and case["family"] == "section":
        x = x.encode("latin-1")  # binary section files: the same lines as bytes, one byte per character
    budget = 2 * (1 + units_of(case) + len(case.get("secs", []))) + 8
    try:
        with warnings.catch_warnings():
            warnings.simplefilter("ignore")
            if fam == "register":
                from cfinterface.components.defaultregister import DefaultRegister
                from cfinterface.data.registerdata import RegisterData

                RF, rclasses = fsup.mk_register_file(case["regs"], "BINARY" if binary else "TEXT", io=case.get("path"))
                nt = len(case["regs"])
                rd = routed(case, RF)

                def read_bin(content, b=budget):
                    return count_appends(RegisterData, b, lambda: RF.read(content, linesize=case["linesize"]) if case.get("linesize_kw") else RF.read(content, case["linesize"]), nt)

                def read_txt(content, b=budget):
                    return count_appends(RegisterData, b, lambda: rd(content), nt)

                def other_reg(content):
                    # (under the step budget: with the other storage the same types may never consume, e.g. a
                    # record of width zero in binary storage - that read is not the observed one)
                    O = other_storage_class(RF, "REGISTERS", binary)
                    count_appends(RegisterData, budget, lambda: O.read(content.decode("latin-1") if binary else content.encode("latin-1", "replace")), nt)

                hist = run_history(case, read_bin if binary else read_txt, list(rclasses) + [DefaultRegister], x, budget, other_reg)
                if binary and any(b >= 128 for b in x):
                    # bytes that are not ASCII: a window that does not decode ends the read with UnicodeDecodeError
                    # (termination, outside the modelled domain).  The TWIN content (those bytes replaced by "z")
                    # is what the model is asked about; the original must end too — by returning or by raising
                    try:
                        o = read_bin(x)
                    except UnicodeDecodeError:
                        o = {"returned": True, "raised": "UnicodeDecodeError"}
                    t = read_bin(twin_of(x))
                    return {**t, "non_ascii_original": o, "history": hist}
                return {**(read_bin(x) if binary else read_txt(x)), "history": hist}
            if fam == "block":
                from cfinterface.components.defaultblock import DefaultBlock
                from cfinterface.data.blockdata import BlockData

                BF, bclasses = fsup.mk_block_file(case["blocks"], binary, io=case.get("path"))
                rd = routed(case, BF)

                def read_blk(content, b=budget):
                    return count_appends(BlockData, b, lambda: rd(content), len(case["blocks"]))

                def other_blk(content):
                    O = other_storage_class(BF, "BLOCKS", binary)
                    count_appends(BlockData, budget, lambda: O.read(content.decode("latin-1") if binary else content.encode("latin-1", "replace")), len(case["blocks"]))

                hist = run_history(case, read_blk, list(bclasses) + [DefaultBlock], x, budget, other_blk)
                return {**read_blk(x), "history": hist}
            from cfinterface.components.defaultsection import DefaultSection
            from cfinterface.data.sectiondata import SectionData

            SF, sclasses = fsup.mk_section_file(case["secs"], binary=binary, io=case.get("path"))
            rd = routed(case, SF)

            def read_sec(content, b=budget):
                return count_appends(SectionData, b, lambda: rd(content))

            def other_sec(content):
                O = other_storage_class(SF, "SECTIONS", binary)
                count_appends(SectionData, budget, lambda: O.read(content.decode("latin-1") if binary else content.encode("latin-1", "replace")))

            hist = run_history(case, read_sec, list(sclasses) + [DefaultSection], x, budget, other_sec)
            return {**read_sec(x), "history": hist}
    except Exception as e:
        return codec.enc_exc(e)


def created(obs):
    """the number of elements the read created, as observed: the append() calls of the read, or — when the file
    that was RETURNED holds more than those (placeholder aside) — the elements the application is given"""
    n = obs.get("appends", 0)
    if obs.get("returned") and "elements" in obs:
        n = max(n, obs["elements"] - 1)
    return n


def request(case, obs):
    if case.get("bad_byte_path"):
        return {"op": "all", "obs": obs if "checks" in obs else {"exc": "harness"}}
    o = {"returned": bool(obs["returned"]), "appends": created(obs)} if "returned" in obs else {"returned": False, "appends": 0}
    # a binary section file is read line by line like a text one: the model of the text is the model of the bytes
    xs = case["x"]
    if case["family"] == "register" and case["binary"] and any(b >= 128 for b in xs):
        xs = list(twin_of(bytes(xs)))  # the model is asked about the ASCII twin (see run_impl)
    req = {"op": "c18", "family": case["family"], "binary": case["binary"] and case["family"] != "section", "x": xs, "obs": o}
    for k in ("regs", "blocks", "secs", "linesize"):
        if k in case:
            req[k] = case[k]
    return req


def judge(case, obs, resp):
    if "error" in resp:
        return {"status": "error", "why": resp["error"]}
    if "harness_exc" in obs:
        return {"status": "error", "why": f"harness: {obs['harness_exc']} {obs.get('msg')}"}
    if case.get("bad_byte_path"):
        if "exc" in obs:
            return {"status": "error", "why": f"harness raised {obs['exc']}: {obs.get('msg')}"}
        if not resp["holds"]:
            return {"status": "oracle", "why": f"text file read from a path, one undecodable byte late in the file: {obs.get('detail')} (more elements than lines, or the read did not end)"}
        return {"status": "ok", "why": ""}
    if not resp["indomain"]:
        return {"status": "skip", "why": "outside the domain"}
    if not resp["model_holds"]:
        return {"status": "error", "why": f"the MODEL exceeds the bound: {resp.get('model')}"}
    if "exc" in obs:
        return {"status": "oracle", "why": f"read raised {obs['exc']}: {obs.get('msg')} (in-domain content must be read successfully)"}
    pre = describe_route(case) + describe_history(case)
    n = created(obs)
    what = f"{n} elements created" if n == obs.get("appends") else f"a file of {obs.get('elements')} elements returned ({obs.get('appends')} append() calls during the read; placeholder included)"
    if not resp["holds"]:
        m = resp["model"]
        if not obs["returned"]:
            return {"status": "oracle", "why": f"{pre}read did not finish within the step budget: {obs['appends']} elements appended for {m['bound']} units of input"}
        return {"status": "oracle", "why": f"{pre}{what} for only {m['bound']} units of input"}
    if not resp["agree"]:
        return {"status": "corr", "why": f"{pre}model creates {resp['model']['appends']} elements (plus the placeholder), implementation: {what}"}
    o = obs.get("non_ascii_original")
    if o is not None and not o.get("returned"):
        return {"status": "oracle", "why": f"{pre}content with bytes that are not ASCII: the read did not finish within the step budget ({o.get('appends')} elements appended), although the same content with those bytes replaced by 'z' is read in {obs['appends']} steps"}
    return {"status": "ok", "why": ""}


def nontrivial(case):
    return len(case["x"]) > 0


def features(case, obs):
    f = [f"family={case['family']}", "binary" if case["binary"] else "text", f"units={min(units_of(case), 30)}"]
    if isinstance(obs, dict) and "appends" in obs:
        f.append("all_units_became_elements" if obs["appends"] == units_of(case) else "fewer_elements_than_units")
    for h in case.get("before") or []:
        f.append(f"before={h['mode']}")
    if case.get("path"):
        f.append(f"path={case['path']['enc']}/{case['path']['eol']!r}")
    return f


def signature(rec):
    return rec["case"]["family"] + ("b" if rec["case"]["binary"] else "t")


def matches_known(trigger, case):
    return False


def snippet(case):
    return f"""import sys; sys.path.insert(0, '/verif/harness'); sys.path.insert(0, '/repo')
from props import c18
case = {json.dumps(case)}
print(c18.run_impl(case), 'units =', c18.units_of(case))
"""


# ------------------------------------------------------------------ generators
def with_long_line(rng, x):
    """text content with one very long line (around and beyond io.DEFAULT_BUFFER_SIZE characters) put in:
    a line is one unit of input however long it is"""
    lines = codec.dec_str(x).splitlines(keepends=True)
    n = rng.choice([8191, 8192, 8193, 9000, 16384, 17000])
    long = rng.choice("z_ 9") * n + rng.choice(["\n", "\n", ""])
    i = rng.randrange(0, len(lines) + 1)
    if i < len(lines) and not long.endswith("\n"):
        long += "\n"
    if i == len(lines) and lines and not lines[-1].endswith("\n"):
        lines[-1] += "\n"
    return codec.enc_str("".join(lines[:i] + [long] + lines[i:]))


def random_case(rng):
    c = random_case0(rng)
    if not c["binary"] and rng.random() < 0.02:
        c["x"] = with_long_line(rng, c["x"])
    elif not c["binary"] and c["family"] == "register" and rng.random() < 0.03:
        c["bad_byte_path"] = True
    return c


def with_history(case):
    """three cases in ten: one or two earlier reads with the same file class before the observed one (completed,
    interrupted out of an append, aborted by an element).  The choices come from a random stream of their own,
    derived from the case, so that the cases themselves are the ones generated before this dimension existed"""
    import zlib

    if case.get("bad_byte_path"):
        return case
    # (a stream of its own again:) one case in four has the component types used by a file class of the other
    # storage first
    ho = random.Random(zlib.crc32(("other-storage " + json.dumps(case, sort_keys=True)).encode()))
    first = [{"mode": "other_storage"}] if ho.random() < 0.25 else []
    hr = random.Random(zlib.crc32(json.dumps(case, sort_keys=True).encode()))
    if hr.random() >= 0.3:
        return {**case, "before": first} if first else case
    before = []
    for _ in range(hr.choice([1, 1, 2])):
        mode = hr.choice(["interrupt", "element", "element", "complete"])
        k = hr.choice([1, 2, 3]) if mode == "interrupt" else hr.choice([2, 2, 3, 4]) if mode == "element" else 0
        before.append({"mode": mode, "k": k, "times": hr.choice([1, 1, 2])})
    return {**case, "before": first + before}


def with_route(case):
    """one text case in four reaches File.read as a PATH: the content lies on disk in the ENCODING the file class
    declares, with LF, CR LF or CR line ends, in half of these cases with a few non-ASCII characters put in.
    case["x"] stays the text such a file holds (lines ended by LF) — what the model is asked about.  The choices
    come from a stream of their own, so the cases and their histories are the ones generated before"""
    import zlib

    if case["binary"] or case.get("bad_byte_path") or case.get("path"):
        return case
    rr = random.Random(zlib.crc32(("route " + json.dumps(case, sort_keys=True)).encode()))
    if rr.random() >= 0.25:
        return case
    enc = rr.choice(fsup.DISK_ENCODINGS)
    eol = rr.choice(["\r\n", "\r\n", "\n", "\r"])
    # what a reader of the file sees: CR LF and CR end a line as LF does
    x = codec.dec_str(case["x"]).replace("\r\n", "\n").replace("\r", "\n")
    if rr.random() < 0.5:
        cs = list(x)
        at = [i for i, ch in enumerate(cs) if ch != "\n"]
        for i in rr.sample(at, min(len(at), rr.choice([1, 1, 2, 3]))):
            cs[i] = rr.choice(fsup.NON_ASCII)
        x = "".join(cs)
    for e in (enc, "utf-8"):
        try:
            x.encode(e)
            return {**case, "x": codec.enc_str(x), "path": {"enc": e, "eol": eol}}
        except UnicodeEncodeError:
            pass
    return case


def random_case0(rng):
    r = rng.random()
    if r < 0.3:
        c = c04.random_case(rng)
        if rng.random() < 0.3:
            c["content"] = codec.enc_str("".join(rng.choice("AB \n\n#x1\t") for _ in range(rng.randrange(0, 40))))
        return {"family": "register", "binary": False, "regs": c["regs"], "x": c["content"]}
    if r < 0.55:
        ndefs = rng.randrange(1, 4)
        defs = [c10.make_def(rng, "bin") for _ in range(ndefs)]
        linesize = max([d["digits"] for d in defs] + [1]) + rng.choice([0, 0, 2])
        # well-formed records, truncated, and garbage
        chunks = []
        for _ in range(rng.randrange(0, 6)):
            d = rng.choice(defs)
            size = d["digits"] + sum(f["size"] for f in d["fields"])
            rr = rng.random()
            if rr < 0.5:
                rec = codec.dec_str(d["ident"]).ljust(d["digits"]).encode() + bytes(rng.randrange(0, 128) for _ in range(size - d["digits"]))
            elif rr < 0.7:
                rec = (codec.dec_str(d["ident"]).ljust(d["digits"]).encode() + bytes(rng.randrange(0, 128) for _ in range(size)))[: rng.randrange(1, size + 1)]
            elif rr < 0.9:
                rec = bytes(rng.choice(b"ZQ \x00\x01zz\n") for _ in range(rng.randrange(1, 8)))
            else:
                # bytes that are not valid UTF-8 on their own (a lone continuation byte, 0xff, a cut sequence)
                rec = bytes(rng.choice(b"\x80\xff\xc3\xe2\x82z ") for _ in range(rng.randrange(1, 5)))
            chunks.append(rec)
        # the peek window goes in positionally or as a keyword (a keyword travels through **kwargs down to
        # the elements); sometimes it is wider than whole records
        if rng.random() < 0.3:
            linesize += rng.choice([3, 8, 20])
        return {"family": "register", "binary": True, "regs": defs, "linesize": linesize, "x": list(b"".join(chunks)), "linesize_kw": rng.random() < 0.5}
    if r < 0.7:
        c = c12.random_text_case(rng)
        return {"family": "block", "binary": False, "blocks": c["blocks"], "x": c["x"]}
    if r < 0.85:
        c = c12.random_bin_case(rng)
        return {"family": "block", "binary": True, "blocks": c["blocks"], "x": c["x"]}
    c = c13.random_case(rng)
    return {"family": "section", "binary": bool(c.get("binary")), "secs": c["secs"], "x": c["x"]}


def corpus_cases():
    d = Path(__file__).resolve().parent.parent.parent / "corpus" / PROP
    out = []
    if d.exists():
        for f in sorted(d.glob("*.json")):
            j = json.loads(f.read_text())
            out.append(j["case"] if "case" in j else j)
    return out


def chunks(tier, seed):
    ch = [{"kind": "corpus"}]
    nrand = {"quick": 4000, "thorough": 400000}.get(tier, 12000)
    per = max(1, nrand // 16)
    for i in range(16):
        ch.append({"kind": "random", "seed": seed * 1000 + i, "n": per})
    return ch


def cases_of(chunk):
    if chunk["kind"] == "corpus":
        yield from corpus_cases()
    else:
        rng = random.Random(chunk["seed"])
        for _ in range(chunk["n"]):
            yield with_route(with_history(random_case(rng)))


def shrinks(case):
    if case.get("before"):
        yield {k: v for k, v in case.items() if k != "before"}
        if len(case["before"]) > 1:
            for i in range(len(case["before"])):
                yield {**case, "before": case["before"][:i] + case["before"][i + 1 :]}
    if case.get("path"):
        yield {k: v for k, v in case.items() if k != "path"}
        if case["path"]["eol"] != "\n":
            yield {**case, "path": {**case["path"], "eol": "\n"}}
    x = case["x"]
    n = len(x)
    for k in (n // 2, n // 4, 1):
        if k >= 1:
            for i in range(0, n, k):
                yield {**case, "x": x[:i] + x[i + k :]}
    for key in ("regs", "blocks", "secs"):
        if key in case and len(case[key]) > 1:
            for i in range(len(case[key])):
                yield {**case, key: case[key][:i] + case[key][i + 1 :]}
