"""C06 — read-then-write is a projection; unrecognised lines survive verbatim."""
from __future__ import annotations

import json
import random
import zlib
from io import StringIO
from pathlib import Path

import codec
import filesupport as fsup
from props import c04, c05

PROP = "C06"
LEAN_MODULES = ["Props.C06", "Props.C06F", "Props.C06E", "Props.C06D", "Props.C05"]
RULE = (
    "case = (register file definition with unambiguous identifiers, text content x). Contents are canonical lines "
    "perturbed by extra precision, odd spacing inside fields, right-aligned literals, explicit '+', Unicode digits, "
    "trailing garbage, comments, blank lines, missing final newline; plus contents produced by a write. On the real "
    "code: y = write(read(x)), y2 = write(read(y)). Judged by Spec.C06.holds (y2 == y byte for byte; the lines of x "
    "that match no register are exactly the non-matching lines of y, in order) and compared with the model. The "
    "precondition 'parsed values are representable' is evaluated per case by Spec.C06.representable on the model's "
    "parse of x (discards counted). non-trivial = x contains a typed line that is not already canonical or a "
    "default line; distinct by full case. In about a third of the cases (a separate random stream derived from the "
    "case) some registers list the fields of their LINE in another order than their columns (every field carries "
    "its own starting position, so the declaration order is free as long as the columns do not overlap); contents "
    "and expectations are unchanged by that, the model is given the same declaration order."
)
ASSUMPTIONS = c05.ASSUMPTIONS
TRUSTED = []
NOT_THEOREMS = ['record-level premise of Props.C06.main (every typed record parsed from x renders and is record-stable: C01 stability) — discharged for every text in Props.C06.main_int_lit (files of integer / literal registers), main_regs_F, main_regs_FE (also floats in F and E notation) and main_regs_all (dates as well) and derivable from the per-field laws in general (recStable_of_laws) — the float ranges of those theorems now cover every finite double in normal form, in either notation (Props.C01.floatFB_all)']
EXHAUSTIVE = {"quick": False, "thorough": False}


def rw(RF, text, io=None, extra=()):
    return fsup.write_text(fsup.read_text(RF, text, io, *extra), io)


def run_impl(case):
    try:
        RF, classes = fsup.mk_register_file(case["regs"], io=case.get("io"))
        extra = c04.text_linesize(case)
        y = rw(RF, codec.dec_str(case["x"]), case.get("io"), extra)
        y2 = rw(RF, y, case.get("io"), extra)
        return {"y": codec.enc_str(y), "y2": codec.enc_str(y2)}
    except Exception as e:
        return codec.enc_exc(e)


def request(case, obs):
    if "harness_exc" in obs:
        obs = {"exc": "harness"}
    return {"op": "c06", "regs": case["regs"], "x": case["x"], "obs": obs}


def judge(case, obs, resp):
    if "error" in resp:
        return {"status": "error", "why": resp["error"]}
    if "harness_exc" in obs:
        return {"status": "error", "why": f"harness: {obs['harness_exc']} {obs.get('msg')}"}
    if not resp["indomain"]:
        return {"status": "skip", "why": "outside the domain (ambiguous identifiers / a parsed value is not representable)"}
    if not resp["model_holds"]:
        return {"status": "error", "why": f"the MODEL violates Spec.C06.holds: {show(resp.get('model'))}"}
    if "exc" in obs:
        return {"status": "oracle", "why": f"read/write raised {obs['exc']}: {obs.get('msg')}"}
    if not resp["holds"]:
        return {"status": "oracle", "why": f"x={codec.dec_str(case['x'])!r}: got {show(obs)}; exact model {show(resp.get('model'))}"}
    if case.get("perturbed") is False and obs.get("y") != case["x"]:
        # third clause of the property: x was itself produced by a write (of canonical data), so it is reproduced exactly
        return {"status": "oracle", "why": f"content produced by a write is not reproduced exactly: x={codec.dec_str(case['x'])!r} read-then-write gives {codec.dec_str(obs['y'])!r}"}
    if not resp["agree"]:
        return {"status": "corr", "why": f"model {show(resp.get('model'))} vs implementation {show(obs)}"}
    return {"status": "ok", "why": ""}


def show(o):
    if not o or "y" not in o:
        return str(o)
    return f"y={codec.dec_str(o['y'])!r} y2={codec.dec_str(o['y2'])!r}"


def nontrivial(case):
    return len(case["x"]) > 0 and case.get("perturbed", True)


def features(case, obs):
    x = codec.dec_str(case["x"])
    f = [f"nregs={len(case['regs'])}", f"nlines={min(len(x.splitlines()), 20)}", "final_newline" if x.endswith("\n") else "no_final_newline"]
    f += [f"perturbation={p}" for p in case.get("perts", [])]
    if isinstance(obs, dict) and "y" in obs:
        f.append("y_equals_x" if obs["y"] == case["x"] else "y_differs_from_x")
    return f


def signature(rec):
    return rec["verdict"]["why"][:25]


def matches_known(trigger, case):
    return False


def snippet(case):
    return f"""import sys; sys.path.insert(0, '/verif/harness'); sys.path.insert(0, '/repo')
from props import c06
case = {json.dumps(case)}
print(c06.show(c06.run_impl(case)))
"""


# ------------------------------------------------------------------ generators
UNI = str.maketrans("0123456789", "٠١٢٣٤٥٦٧٨٩")


def render_value(rng, fd, v, perts):
    """text of a value in its field, optionally perturbed (still `size` wide)"""
    size = fd["size"]
    k = fd["k"]
    val = codec.dec_val(v) if v is not None else None
    if val is None:
        return " " * size
    if k == "int":
        t = str(val)
        r = rng.random()
        if r < 0.15 and len(t) < size and val >= 0:
            t = "+" + t
            perts.add("explicit_plus")
        elif r < 0.25:
            t = t.translate(UNI)
            perts.add("unicode_digits")
        elif r < 0.35 and len(t) < size:
            perts.add("odd_spacing")
            return (t + " " * rng.randrange(1, size - len(t) + 1)).rjust(size)[:size]
        return t.rjust(size)
    if k == "lit":
        t = val
        if rng.random() < 0.3 and len(t) < size:
            perts.add("right_aligned_literal")
            return t.rjust(size)
        return t.ljust(size)
    if k == "flt":
        dec, fmt, sep = fd["dec"], codec.dec_str(fd["fmt"]), codec.dec_str(fd["sep"])
        r = rng.random()
        if fmt in "Ee":
            t = "{:.{d}{f}}".format(val, d=dec, f=fmt)
        else:
            t = "{:.{d}f}".format(val, d=dec)
            while len(t) > size and "." in t:
                t = t[:-1].rstrip(".") if t[-1] != "." else t[:-1]
            if r < 0.25 and len(t) < size:
                t = t + str(rng.randrange(1, 10))  # extra precision
                perts.add("extra_precision")
            elif r < 0.35 and len(t) < size and val >= 0:
                t = "+" + t
                perts.add("explicit_plus")
            elif r < 0.42 and "." in t:
                t = t.rstrip("0")
                perts.add("fewer_decimals")
        t = t.replace(".", sep)
        return t.rjust(size)[:size] if len(t) <= size else t[:size]
    fmt = codec.dec_str(fd["fmts"][0])
    t = val.strftime(fmt)
    if rng.random() < 0.2 and len(t) < size:
        perts.add("odd_spacing")
        return (" " + t).ljust(size)
    return t.ljust(size)


def typed_line(rng, r, perts):
    ident = codec.dec_str(r["ident"])
    width = max([r["digits"]] + [f["start"] + f["size"] for f in r["fields"]])
    line = list(ident.ljust(width))
    for fd in r["fields"]:
        v = c05.canonical_value(rng, fd)
        line[fd["start"] : fd["start"] + fd["size"]] = list(render_value(rng, fd, v, perts))
    s = "".join(line)
    if rng.random() < 0.15:
        s += rng.choice([" trailing", "  #c", "9"])
        perts.add("trailing_garbage")
    if rng.random() < 0.1:
        s = s.rstrip(" ")
        perts.add("trailing_blanks_cut")
    return s + "\n"


def declaration_order(case, p=0.35):
    """the order in which a LINE lists its fields is free (each field carries its own columns): for a share `p`
    of the cases some registers with two or more fields get their field list permuted, the per-field values of
    their elements (written cases) along with it. Drawn from a random stream of its own, derived from the case,
    so that the streams of the other dimensions stay as they are. The columns, hence the texts, do not change."""
    xr = random.Random(zlib.crc32(json.dumps(case, sort_keys=True).encode()) ^ 0xC06)
    if xr.random() >= p:
        return case
    done = False
    for i, r in enumerate(case["regs"]):
        n = len(r["fields"])
        if n < 2 or xr.random() < 0.3:
            continue
        perm = list(range(n))
        while perm == list(range(n)):
            how = xr.randrange(3)
            if how == 0:
                perm = perm[::-1]
            elif how == 1:
                k = xr.randrange(1, n)
                perm = perm[k:] + perm[:k]
            else:
                xr.shuffle(perm)
        r["fields"] = [r["fields"][j] for j in perm]
        for e in case.get("elems", []):
            if e.get("cls") == i and len(e["data"]) == n:
                e["data"] = [e["data"][j] for j in perm]
        done = True
    if done and "perts" in case:
        case["perts"] = sorted(set(case["perts"]) | {"fields_declared_out_of_column_order"})
    return case


def random_case(rng):
    return declaration_order(random_case0(rng))


def random_case0(rng):
    regs = c05.make_regs(rng)
    perts = set()
    lines = []
    for _ in range(fsup.nlines(rng, 10)):
        r0 = rng.random()
        if r0 < 0.2:
            lines.append(rng.choice(c05.FREE_TEXT))
            perts.add("free_text_line")
        elif r0 < 0.3:
            # a record shifted out of its columns by leading blanks (or by a leading character):
            # not recognisable by its identifier window, hence a default line that must survive verbatim
            shift = rng.choice([" ", "  ", "    ", "\t", "*", "& "])
            lines.append(shift + typed_line(rng, rng.choice(regs), set()))
            perts.add("shifted_record_as_free_text")
        elif r0 < 0.34:
            # an identifier text in the body of a free-text line
            lines.append("note: see " + codec.dec_str(rng.choice(regs)["ident"]) + " records below\n")
            perts.add("identifier_text_inside_free_text")
        else:
            lines.append(typed_line(rng, rng.choice(regs), perts))
    x = "".join(lines)
    if x and rng.random() < 0.3:
        x = x[:-1]
        perts.add("no_final_newline")
    io = None
    if x and rng.random() < 0.15:
        # carriage returns (in memory only "\n" ends a line and nothing is translated): a lone CR
        # somewhere, or CR LF at the end of a line
        for _ in range(rng.randrange(1, 3)):
            nl = [i for i, ch in enumerate(x) if ch == "\n"]
            i = rng.choice(nl) if nl and rng.random() < 0.6 else rng.randrange(len(x))
            x = x[:i] + "\r" + x[i:]
        perts.add("carriage_return")
    else:
        io = fsup.io_of(rng, [x])
    case = {"regs": regs, "x": codec.enc_str(x), "perts": sorted(perts)}
    if rng.random() < 0.3:
        case["linesize"] = rng.choice([2, 3, 16, 80])
    if io:
        case["io"] = io  # read from / written to paths on disk, in the class's declared encoding
    return case


def written_case(rng):
    """content that was itself produced by a write (must be reproduced exactly)"""
    case = c05.random_case(rng)
    from cfinterface.components.defaultregister import DefaultRegister  # noqa

    if rng.random() < 0.4:
        # data that is not yet at the resolution of its field: F-notation floats just below a power of ten
        # (99.96, -9.996, 999.5 ...) whose text needs fewer decimals than declared and carries into one more
        # integer digit when rounded there; the value still fits (its 0-decimal text has at most `size` columns)
        for e in case["elems"]:
            if "cls" not in e:
                continue
            fds = case["regs"][e["cls"]]["fields"]
            for i, fd in enumerate(fds):
                if fd["k"] == "flt" and codec.dec_str(fd["fmt"]) in "Ff" and i < len(e["data"]) and e["data"][i] is not None and rng.random() < 0.6:
                    neg = rng.random() < 0.3
                    kmax = fd["size"] - 1 - (1 if neg else 0)
                    if kmax < 1:
                        continue
                    x = 10.0 ** rng.randrange(1, kmax + 1) - rng.choice([0.5, 0.05, 0.04, 0.004, 0.0004, 0.00004])
                    e["data"][i] = codec.enc_val(-x if neg else x)
    case = declaration_order(case)
    reordered = ["fields_declared_out_of_column_order"] if any(
        [f["start"] for f in r["fields"]] != sorted(f["start"] for f in r["fields"]) for r in case["regs"]) else []
    try:
        RF, classes, f = c05.build_file(case)
        buf = StringIO()
        f.write(buf)
        # a hand-built file may hold free text that a declared type would claim on reading (C05 excludes
        # such files): the exact-reproduction clause is then not demanded, only the fixed point
        looks_typed = any(isinstance(e, DefaultRegister) and isinstance(e.data, str) and any(c.matches(e.data) for c in classes) for e in f.data)
        if looks_typed:
            return {"regs": case["regs"], "x": codec.enc_str(buf.getvalue()), "perts": ["produced_by_write", "free_text_a_declared_type_claims"] + reordered}
        return {"regs": case["regs"], "x": codec.enc_str(buf.getvalue()), "perts": ["produced_by_write"] + reordered, "perturbed": False}
    except Exception:
        return {"regs": case["regs"], "x": [], "perts": ["produced_by_write"], "perturbed": False}


def corpus_cases():
    d = Path(__file__).resolve().parent.parent.parent / "corpus" / PROP
    out = []
    if d.exists():
        for f in sorted(d.glob("*.json")):
            j = json.loads(f.read_text())
            out.append(j["case"] if "case" in j else j)
    return out


def chunks(tier, seed):
    ch = [{"kind": "corpus"}]
    nrand = {"quick": 4000, "thorough": 400000}.get(tier, 12000)
    per = max(1, nrand // 16)
    for i in range(16):
        ch.append({"kind": "random", "seed": seed * 1000 + i, "n": per, "written": i % 4 == 3})
    return ch


def cases_of(chunk):
    if chunk["kind"] == "corpus":
        yield from corpus_cases()
    else:
        rng = random.Random(chunk["seed"])
        for _ in range(chunk["n"]):
            yield written_case(rng) if chunk["written"] else random_case(rng)


def shrinks(case):
    x = codec.dec_str(case["x"])
    lines = x.splitlines(True)
    for i in range(len(lines)):
        yield {**case, "x": codec.enc_str("".join(lines[:i] + lines[i + 1 :]))}
    for i in range(len(lines)):
        yield {**case, "x": codec.enc_str(lines[i])}
    n = len(case["regs"])
    if n > 1:
        for i in range(n):
            yield {**case, "regs": case["regs"][:i] + case["regs"][i + 1 :]}
