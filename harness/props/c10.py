"""C10 — written registers are recognised, self-delimiting and re-readable in any storage."""
from __future__ import annotations

import json
import random
import warnings
import zlib
from io import BytesIO, StringIO
from pathlib import Path

import codec
import filesupport as fsup
from props import c01, c05, c09

PROP = "C10"
LEAN_MODULES = ["Props.C10", "Props.C10F", "Props.C10T", "Props.C10D", "Props.Legacy"]
RULE = (
    "case = (storage in {positional text, delimited text, binary}, a stream of 1-8 registers of mixed register "
    "definitions: identifier text, identifier width >= its length incl. zero-width, mixed field kinds, contiguous "
    "binary layouts; in-domain data). On the real code every register is written to ONE buffer (tell() after each "
    "write), the class's matches() is evaluated on the leading window of what it wrote, then the buffer is rewound "
    "and the registers are read back in order with fresh instances (data and tell() after each read). Judged by "
    "Spec.C10.holds (recognised; identifier left-justified in its columns / first token; exactly one line, or "
    "identifier width + field widths bytes; data read back canonical; every read consumes exactly what the write "
    "produced, so the i-th tell() is the i-th partial sum) and compared with the model. non-trivial = at least two "
    "registers in the stream; distinct by full case. In about half of the cases some of the register OBJECTS have an "
    "earlier life (items' `pre` for the object that writes, `pre_read` for the object that reads back): before the "
    "observed operation the very same object was written to and/or read from throw-away streams of any storage, the "
    "observed storage or another one, results discarded; the observed write/read is judged exactly as for a fresh "
    "object, because the property speaks of any register, whatever it was used for before. In about a third of the "
    "cases some of the writing objects also HELD ANOTHER RECORD before (items' `was`: the object was built with other "
    "in-domain data of the same definition, had its earlier life with them, and was then given the observed data by "
    "r.data[i] = v, r.data[:] = values or r.data = values), or ONE object writes several records of the stream "
    "(items' `reuse`: the object that wrote the latest record of the same definition is given this item's data in "
    "one of those three ways and writes again); every record is judged by the data the object holds when it is written. "
    "In about two fifths of the delimited-text cases the delimiter is WHITE SPACE (a blank, a TAB, or two of them) "
    "instead of punctuation, so that missing values and empty literals stand as empty tokens between two delimiters "
    "in a row; the domain (data that do not contain the delimiter) and the expectation stay the model's."
)
ASSUMPTIONS = c01.ASSUMPTIONS + ["binary layouts are contiguous after the identifier (the property's domain)", "identifiers are ASCII literal text without surrounding blanks"]
TRUSTED = []
NOT_THEOREMS = ['positional text storage is a theorem for every stream (Props.C10.text_positional under the read half of the per-field law and the absence of line breaks in the renderings; Props.C10.text_positional_dom discharges both from the decidable domain of C01 for integers, literals, dates, missing values and floats — F notation any finite double, E notation any finite double in normal form (Props.C01.FloatFB, floatFB_all))', 'binary storage is a theorem for every stream (Props.C10.binary under the per-field binary law; Props.C10.binary_nodate / binary_all discharge it for integers, ASCII literals, floats, dates and missing values)', 'delimited text storage is a theorem as well (Props.C10.text_delimited / text_mixed under the per-token law; Props.C10.text_delimited_dom discharges it from the decidable domain of C01 for every kind)']
EXHAUSTIVE = {"quick": False, "thorough": False}


def earlier_life(r, ops):
    """what the object was used for before the observed operation: written to / read from throw-away
    streams of the storages named in `ops` (a record converted from one format to another, a record
    written twice ...). Nothing of it is observed and a use that fails is simply over: the property
    is about the operation that follows, on an object that is a register like any other."""
    for op in ops or []:
        s = op["storage"]
        try:
            if op["op"] == "w":
                r.write(BytesIO() if s == "BINARY" else StringIO(), s)
            else:
                keep = r.data
                try:
                    r.read(BytesIO(bytes(4096)) if s == "BINARY" else StringIO("\n"), s)
                finally:
                    r.data = keep
        except Exception:
            pass


HOW = {"item": "r.data[i] = v for every i", "slice": "r.data[:] = values", "setter": "r.data = values"}


def give(r, vals, how):
    """the object is given other data through its public `data` list / property"""
    if how == "item":
        for i, v in enumerate(vals):
            r.data[i] = v
    elif how == "slice":
        r.data[:] = vals
    else:
        r.data = list(vals)


def history_text(case):
    out = []
    for i, it in enumerate(case["items"]):
        if it.get("reuse") and any(p["def"] == it["def"] for p in case["items"][:i]):
            out.append(f"register {i} is written by the SAME object as the latest earlier register of its definition, given the new data by {HOW[it['reuse']]}")
        elif it.get("was"):
            vals = []
            for v in it["was"]["data"]:
                try:
                    vals.append(repr(codec.dec_val(v)))
                except Exception:
                    vals.append(str(v))
            out.append(f"the object that writes register {i} first held [{', '.join(vals)}] (its earlier uses were with those), then was given the data by {HOW[it['was']['how']]}")
        for key, who in (("pre", "writes"), ("pre_read", "reads back")):
            if it.get(key):
                ops = ", ".join(("written to" if o["op"] == "w" else "read from") + f" a throw-away {o['storage'] or 'default'!s} stream" for o in it[key])
                out.append(f"the object that {who} register {i} was first {ops}")
    return (" [earlier uses of the objects: " + "; ".join(out) + "]") if out else ""


def run_impl(case):
    st = case["storage"]
    try:
        with warnings.catch_warnings():
            warnings.simplefilter("ignore")
            defs = case["defs"]
            classes = fsup.mk_register_classes(defs)
            buf = BytesIO() if st == "BINARY" else StringIO()
            out = []
            last = {}  # definition -> the object that wrote the latest record of that definition
            dec = lambda data: [codec.dec_val(v, case.get("np_scalars", False)) for v in data]
            for it in case["items"]:
                cls = classes[it["def"]]
                before = buf.tell()
                if it.get("reuse") and it["def"] in last:
                    # one object, several records: changed through its data and written again
                    r = last[it["def"]]
                    give(r, dec(it["data"]), it["reuse"])
                    earlier_life(r, it.get("pre"))
                elif it.get("was"):
                    # the object held another record (and was used with it) before it got this one
                    r = cls(data=dec(it["was"]["data"]))
                    earlier_life(r, it.get("pre"))
                    give(r, dec(it["data"]), it["was"]["how"])
                else:
                    r = cls(data=dec(it["data"]))
                    earlier_life(r, it.get("pre"))
                last[it["def"]] = r
                # (the documented wrapper methods write_register / read_register do the same as write / read)
                (r.write_register if case.get("wrappers") and len(out) % 2 else r.write)(buf, st)
                after = buf.tell()
                w = buf.getvalue()[before:after]
                out.append({"written": codec.enc_data(w), "tell_write": after, "matched": bool(cls.matches(w, st))})
            buf.seek(0)
            for it, o in zip(case["items"], out):
                if it.get("pre_read"):
                    # an object that already held a record (this one's data) and was used with it
                    r = classes[it["def"]](data=[codec.dec_val(v, case.get("np_scalars", False)) for v in it["data"]])
                    earlier_life(r, it["pre_read"])
                else:
                    r = classes[it["def"]]()
                (r.read_register if case.get("wrappers") and case["items"].index(it) % 2 == 0 else r.read)(buf, st)
                o["read_data"] = [codec.enc_val(v) for v in r.data]
                o["tell_read"] = buf.tell()
            res = {"regs": out}
            if case.get("file_route"):
                res["file_route"] = file_route(case, classes, buf.getvalue(), out)
        return res
    except Exception as e:
        return codec.enc_exc(e)


def file_route(case, classes, content, out):
    """the same stream re-read through RegisterFile.read(content, linesize) (argument positional or
    by keyword, forwarded to every Register.read): when every written record is claimed first by its
    own class, the file must hold the same registers with the same data"""
    from cfinterface.components.defaultregister import DefaultRegister
    from cfinterface.files.registerfile import RegisterFile

    st = case["storage"]
    used = []
    for it in case["items"]:
        if classes[it["def"]] not in used:
            used.append(classes[it["def"]])
    pos = 0
    for it, o in zip(case["items"], out):
        # what the file reader shows the classes: `linesize` bytes from the record's start in
        # binary storage (possibly running into the next record), the record's line in text
        w = content[pos : pos + case["file_route"]["linesize"]] if st == "BINARY" else content[pos : o["tell_write"]]
        pos = o["tell_write"]
        try:
            first = next((c for c in used if c.matches(w, st)), None)
        except Exception:
            # another class's identifier window falls on this record's binary data: not a stream the
            # file reader can dispatch (outside the property's wording, which is about own records)
            return {"skipped": "another declared class cannot even test this record"}
        if first is not classes[it["def"]]:
            return {"skipped": "dispatch among the declared classes is ambiguous for this stream"}
    ns = {"REGISTERS": used}
    if st:
        ns["STORAGE"] = st
    F = type("F", (RegisterFile,), ns)
    fr = case["file_route"]
    f = F.read(content, linesize=fr["linesize"]) if fr["kw"] else F.read(content, fr["linesize"])
    regs = [r for r in fsup.capped(f.data, 10000) if not (isinstance(r, DefaultRegister) and r.data == "")]
    got = []
    for r in regs:
        d = r.data
        got.append([used.index(type(r)) if type(r) in used else -1, [codec.enc_val(v) for v in d] if isinstance(d, list) else codec.enc_val(d)])
    exp = [[used.index(classes[it["def"]]), o["read_data"]] for it, o in zip(case["items"], out)]
    return {"got": got, "expected": exp}


def request(case, obs):
    if "harness_exc" in obs:
        obs = {"exc": "harness"}
    items = [{"reg": case["defs"][it["def"]], "data": it["data"]} for it in case["items"]]
    return {"op": "c10", "storage": case["storage"], "items": items, "obs": obs["regs"] if "regs" in obs else obs}


def judge(case, obs, resp):
    if "error" in resp:
        return {"status": "error", "why": resp["error"]}
    if "harness_exc" in obs:
        return {"status": "error", "why": f"harness: {obs['harness_exc']} {obs.get('msg')}"}
    if not resp["indomain"]:
        return {"status": "skip", "why": "outside the domain"}
    if not resp["model_holds"]:
        return {"status": "error", "why": f"the MODEL's run violates Spec.C10.holds: {show(resp.get('model'))}"}
    if "exc" in obs:
        return {"status": "oracle", "why": f"register write/read raised {obs['exc']}: {obs.get('msg')}{history_text(case)}"}
    if not resp["holds"]:
        return {"status": "oracle", "why": f"got {show(obs['regs'])}; required {show(resp.get('model'))}{history_text(case)}"}
    if not resp["agree"]:
        return {"status": "corr", "why": f"model {show(resp.get('model'))} vs implementation {show(obs['regs'])}{history_text(case)}"}
    fr = obs.get("file_route")
    if fr and "got" in fr and fr["got"] != fr["expected"]:
        return {"status": "oracle", "why": f"re-read through RegisterFile.read(content, linesize{'=' if case['file_route']['kw'] else ' '}{case['file_route']['linesize']}): registers (class index, data) {fr['got']} ; the registers written (and read one by one) {fr['expected']}"}
    return {"status": "ok", "why": ""}


def show(regs):
    if not isinstance(regs, list):
        return str(regs)
    out = []
    for o in regs:
        vals = []
        for v in o["read_data"]:
            try:
                vals.append(repr(codec.dec_val(v)))
            except Exception:
                vals.append(str(v))
        out.append(f"(wrote {codec.dec_data(o['written'])!r} tell={o['tell_write']} matched={o['matched']} read={vals} tell={o['tell_read']})")
    return " ".join(out)


def nontrivial(case):
    return len(case["items"]) >= 2


def features(case, obs):
    f = [f"storage={case['storage'] or 'default'}:{'delimited' if case['defs'][0].get('delimiter') else 'positional'}", f"stream_len={len(case['items'])}"]
    if case["defs"][0].get("delimiter") and case["storage"] != "BINARY":
        try:
            dl = codec.dec_data(case["defs"][0]["delimiter"])
            f.append("delimiter=" + ("white_space" if isinstance(dl, str) and dl.strip() == "" else "punctuation"))
        except Exception:
            pass
    if any(d["digits"] == 0 for d in case["defs"]):
        f.append("zero_width_identifier")
    if any(d["digits"] > len(d["ident"]) for d in case["defs"]):
        f.append("window_wider_than_identifier")
    ops = [o for it in case["items"] for key in ("pre", "pre_read") for o in (it.get(key) or [])]
    if ops:
        fam = lambda x: "binary" if x == "BINARY" else "text"
        f.append("objects_with_earlier_uses:" + ("other_storage" if any(fam(o["storage"]) != fam(case["storage"]) for o in ops) else "same_storage"))
    else:
        f.append("objects_fresh")
    if any(it.get("was") for it in case["items"]):
        f.append("object_held_another_record_before")
    if any(it.get("reuse") and any(p["def"] == it["def"] for p in case["items"][:i]) for i, it in enumerate(case["items"])):
        f.append("one_object_writes_several_records")
    return f


def signature(rec):
    return rec["case"]["storage"] + rec["verdict"]["why"][:15]


def matches_known(trigger, case):
    return False


def snippet(case):
    return f"""import sys; sys.path.insert(0, '/verif/harness'); sys.path.insert(0, '/repo')
from props import c10
case = {json.dumps(case)}
out = c10.run_impl(case)
print(c10.show(out.get('regs')) if 'regs' in out else out)
"""


# ------------------------------------------------------------------ generators
IDENTS = ["AA", "B", "C1", "XYZ", "", "R-2", "k_"]


def make_def(rng, mode):
    ident = rng.choice(IDENTS)
    digits = len(ident) + rng.choice([0, 0, 1, 3])
    if mode == "delim":
        ident = ident or "ID"
        # identifier windows much wider than the identifier: a delimited line may then be
        # shorter than the window itself
        digits = len(ident) + rng.choice([0, 2, 2, 6, 12, 24])
    fields, pos = [], digits
    for _ in range(rng.randrange(1, 5)):
        if mode == "bin":
            k = rng.choice(["int", "flt", "lit", "date"])
            if k == "int":
                fd = codec.fd_int(rng.choice([2, 4, 8]), pos)
            elif k == "flt":
                fd = codec.fd_flt(rng.choice([2, 4, 8]), pos)
            elif k == "lit":
                fd = codec.fd_lit(rng.randrange(1, 8), pos)
            else:
                fd = codec.fd_date(rng.choice([6, 8]), pos, ["%d%m%y"])
            fields.append(fd)
            pos += fd["size"]
        else:
            if mode == "pos":
                pos += rng.choice([0, 0, 1, 2])
            k = rng.choice(["int", "lit", "flt", "date"])
            if k == "int":
                fd = codec.fd_int(rng.randrange(1, 10), pos)
            elif k == "lit":
                fd = codec.fd_lit(rng.randrange(1, 10), pos)
            elif k == "flt":
                fmt = rng.choice("FFFE")
                dec = rng.randrange(0, 5)
                fd = codec.fd_flt(rng.randrange(dec + 3, dec + 9) if fmt == "F" else dec + 8, pos, dec, fmt, ".")
            else:
                fm, w = rng.choice([("%Y/%m/%d", 10), ("%d%m%y", 6), ("%d/%m/%Y", 10)])
                fd = codec.fd_date(w + rng.choice([0, 2]), pos, [fm])
            fields.append(fd)
            pos += fd["size"]
    delim = codec.enc_data(rng.choice([";", ",", "|", "::"])) if mode == "delim" else None
    if mode == "bin" and rng.random() < 0.25:
        delim = codec.enc_data(rng.choice([";", b";", b"|"]))  # declared, but inert in binary storage
    if mode != "delim" and rng.random() < 0.4:
        # every field carries its absolute position: the declaration order is free
        # (the data of an item follow the declaration order)
        rng.shuffle(fields)
    return {"ident": codec.enc_str(ident), "digits": digits, "fields": fields, "delimiter": delim}


def bin_value(rng, fd):
    k = fd["k"]
    if rng.random() < 0.1:
        return None
    if k == "int":
        h = 2 ** (8 * fd["size"] - 1)
        return {"i": rng.choice([rng.randrange(-h, h), 0, -1, h - 1, -h])}
    if k == "flt":
        return codec.enc_val(rng.choice([0.0, 1.5, -2.25, rng.uniform(-1000, 1000), 1e-3]))
    if k == "lit":
        w = rng.randrange(0, fd["size"] + 1)
        return {"s": codec.enc_str("".join(rng.choice("abcXYZ09 ") for _ in range(w)))}
    from datetime import datetime

    return codec.enc_val(datetime(rng.randrange(1970, 2068), rng.randrange(1, 13), rng.randrange(1, 29)))


def gen_data(rng, defs, i, mode):
    if mode == "bin":
        data = [bin_value(rng, fd) for fd in defs[i]["fields"]]
    else:
        data = [c05.canonical_value(rng, fd) for fd in defs[i]["fields"]]
    if all(v is None for v in data):
        fd0 = defs[i]["fields"][0]
        data[0] = {"i": 7} if fd0["k"] == "int" else ({"s": codec.enc_str("q")} if fd0["k"] == "lit" else (codec.enc_val(1.0) if fd0["k"] == "flt" else data[0]))
    return data


def random_case(rng):
    mode = rng.choice(["pos", "pos", "delim", "bin", "bin"])
    ndefs = rng.randrange(1, 4)
    defs = [make_def(rng, mode) for _ in range(ndefs)]
    if mode == "delim":
        d = defs[0]["delimiter"]
        for x in defs:
            x["delimiter"] = d
    items = []
    for _ in range(rng.randrange(1, 9)):
        i = rng.randrange(ndefs)
        items.append({"def": i, "data": gen_data(rng, defs, i, mode)})
    case = {"storage": {"pos": rng.choice(["", "TEXT"]), "delim": "TEXT", "bin": "BINARY"}[mode], "defs": defs, "items": items, "np_scalars": rng.random() < 0.2,
            "file_route": {"linesize": max([d["digits"] for d in defs] + [rng.choice([1, 4, 16, 64, 300])]), "kw": rng.random() < 0.5} if rng.random() < 0.35 else None}
    if rng.random() < 0.5:
        # objects with an earlier life: used before with this storage or another one
        for it in items:
            for key in ("pre", "pre_read"):
                if rng.random() < 0.5:
                    it[key] = [{"op": rng.choice("wwr"), "storage": rng.choice(["", "TEXT", "BINARY", "BINARY", case["storage"]])} for _ in range(rng.choice([1, 1, 2]))]
    if rng.random() < 0.35:
        # objects that held another record before, and one object writing several records
        for it in items:
            x = rng.random()
            if x < 0.35:
                it["reuse"] = rng.choice(["item", "item", "slice", "setter"])
            elif x < 0.6:
                it["was"] = {"data": gen_data(rng, defs, it["def"], mode), "how": rng.choice(["item", "item", "slice", "setter"])}
                if not any(o["op"] == "w" for o in it.get("pre") or []):
                    it["pre"] = (it.get("pre") or []) + [{"op": "w", "storage": rng.choice([case["storage"], case["storage"], "", "BINARY"])}]
    if mode == "delim":
        # the delimiter alphabet: white space as well as punctuation (own random stream, derived from the case)
        r2 = random.Random(zlib.crc32(json.dumps(case, sort_keys=True).encode()))
        if r2.random() < 0.4:
            d = codec.enc_data(r2.choice([" ", " ", "\t", "\t", "  ", " \t", "\t\t"]))
            for x in defs:
                x["delimiter"] = d
    if random.Random(len(items) * 7919 + ndefs).random() < 0.3:
        case["wrappers"] = True  # every other record goes through write_register / read_register
    return case


def corpus_cases():
    d = Path(__file__).resolve().parent.parent.parent / "corpus" / PROP
    out = []
    if d.exists():
        for f in sorted(d.glob("*.json")):
            j = json.loads(f.read_text())
            out.append(j["case"] if "case" in j else j)
    return out


def chunks(tier, seed):
    ch = [{"kind": "corpus"}]
    nrand = {"quick": 4000, "thorough": 400000}.get(tier, 12000)
    per = max(1, nrand // 16)
    for i in range(16):
        ch.append({"kind": "random", "seed": seed * 1000 + i, "n": per})
    return ch


def cases_of(chunk):
    if chunk["kind"] == "corpus":
        yield from corpus_cases()
    else:
        rng = random.Random(chunk["seed"])
        for _ in range(chunk["n"]):
            yield random_case(rng)


def shrinks(case):
    its = case["items"]
    hist = ("pre", "pre_read", "was", "reuse")
    if any(it.get(k) for it in its for k in hist):
        yield {**case, "items": [{k: v for k, v in it.items() if k not in hist} for it in its]}
        for i, it in enumerate(its):
            for key in hist:
                if it.get(key):
                    yield {**case, "items": its[:i] + [{k: v for k, v in it.items() if k != key}] + its[i + 1 :]}
                    if key in ("pre", "pre_read") and len(it[key]) > 1:
                        for k in range(len(it[key])):
                            yield {**case, "items": its[:i] + [dict(it, **{key: it[key][:k] + it[key][k + 1 :]})] + its[i + 1 :]}
    for i in range(len(its)):
        yield {**case, "items": its[:i] + its[i + 1 :]}
    for i, d in enumerate(case["defs"]):
        if len(d["fields"]) > 1 and case["storage"] != "BINARY":
            for k in range(len(d["fields"])):
                d2 = dict(d, fields=d["fields"][:k] + d["fields"][k + 1 :])
                cut = lambda it: dict(it, data=it["data"][:k] + it["data"][k + 1 :], **({"was": dict(it["was"], data=it["was"]["data"][:k] + it["was"]["data"][k + 1 :])} if it.get("was") else {}))
                its2 = [cut(it) if it["def"] == i else it for it in its]
                yield {**case, "defs": case["defs"][:i] + [d2] + case["defs"][i + 1 :], "items": its2}
