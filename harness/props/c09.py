"""C09 — binary fields round-trip exactly and keep the record width."""
from __future__ import annotations

import json
import math
import random
import struct
import warnings
from datetime import datetime
from pathlib import Path

import codec

PROP = "C09"
LEAN_MODULES = ["Props.C09", "Props.C09F", "Props.C09D"]
RULE = (
    "case = (binary layout of 2/4/8-byte integer and float fields, ASCII literal and date fields, any order, gaps; "
    "value list; optionally earlier records written and read through the SAME Line object first; optionally the Line reaches the layout not through its constructor but through the public setters "
    "-- constructed with an earlier layout (wider, narrower, empty, shifted, unrelated; used for 0-2 records) and given this one by line.fields = [...], constructed textual and switched by line.storage = 'BINARY', "
    "both, or its field objects moved to their positions after construction -- a third of the mixed layouts, an eighth of the other random cases and a fixed grid: the expectation is the model's for the layout the line HAS when it writes); optionally the values reach the field objects not (all) through Line.write(values) but through the other public routes -- handed to the field CONSTRUCTORS (value=...) with Line.write given only the first 0..n-1 of them, or assigned by field.value = v with Line.write([]) -- a third of the mixed layouts, an eighth of the other random cases and a fixed grid over field kinds x present / None / NaN / NaT: the expectation is the model's for the values the fields HOLD when the record is written. Line(fields, storage='BINARY').write(values) and .read(bytes) on the real code are compared with the "
    "model's cycle and judged by Spec.C09.holds (length = furthest field end, blank gaps, each field's bytes inside "
    "its span equal the reference encoding, read-back = integers exactly / floats rounded to the IEEE width / "
    "literals stripped / dates truncated to the format / missing numbers 0 and missing text blank). Every quick run "
    "covers ALL 65536 int16 values and ALL 65536 float16 bit patterns (as doubles), int32/int64 boundaries +-1 and "
    "random values, float32/float64 random bit patterns, exact halfway cases of the narrowing casts, subnormals, "
    "overflow to infinity. non-trivial = at least one non-missing value; distinct by full case."
)
ASSUMPTIONS = [
    "little-endian machine (asserted at start-up)",
    "numpy casts double -> float16/float32 round to nearest even with overflow to infinity (the model computes this exactly; compared on every case)",
]
TRUSTED = ["numpy tobytes/frombuffer/astype as the implementation's encoder, struct as the harness-side cross-check"]
NOT_THEOREMS = ['nothing within the domain: Props.C09.main_all is the whole statement for every admitted layout (the per-field binary law is proved for integers, ASCII literals, floats, dates and missing values; Spec.C09.fieldInDomain admits ASCII literals only, a non-ASCII literal being wider in bytes than in characters). Outside it the bytes are still compared with the model on every case']
EXHAUSTIVE = {"quick": True, "thorough": True}

import sys

assert sys.byteorder == "little"


def build_line(Line, fs, case):
    """The binary Line holding the layout `fs`, reached the way case['layout_via'] says:
    constructed with it (no entry), or constructed with ANOTHER layout / storage first, possibly
    used for a record, and then given this layout through the public setters. The property speaks
    about the layout the line HAS when it writes, so the expectation never looks at this history."""
    via = case.get("layout_via")
    if not via:
        return Line(fs, storage="BINARY")
    nps = case.get("np_scalars", False)
    how = via["how"]

    def use(ln):
        for pv in via.get("records", []):
            ln.read(ln.write([codec.dec_val(v, nps) for v in pv]))

    if how == "fields_setter":
        # Line(earlier layout), records through it, then line.fields = [this layout]
        ln = Line([codec.mk_field(fd) for fd in via["fields"]], storage="BINARY")
        use(ln)
        ln.fields = fs
        return ln
    if how == "storage_setter":
        # a textual Line of this layout switched to binary storage
        ln = Line(fs, storage=via.get("storage", ""))
        ln.storage = "BINARY"
        return ln
    if how == "both_setters":
        # a textual Line of the earlier layout switched to binary storage, used, then given this layout
        ln = Line([codec.mk_field(fd) for fd in via["fields"]], storage=via.get("storage", ""))
        ln.storage = "BINARY"
        use(ln)
        ln.fields = fs
        return ln
    if how == "moved":
        # the SAME field objects sat at the earlier positions when the Line was made and were moved
        # afterwards (starting_position / ending_position are settable)
        for f, efd in zip(fs, via["fields"]):
            f.starting_position, f.ending_position = efd["start"], efd["start"] + efd["size"]
        ln = Line(fs, storage="BINARY")
        use(ln)
        for f, fd in zip(fs, case["fields"]):
            f.starting_position, f.ending_position = fd["start"], fd["start"] + fd["size"]
        return ln
    raise ValueError(how)


def via_text(case):
    via = case.get("layout_via")
    if not via:
        return ""
    span = lambda fds: "[" + ", ".join(f"{fd['k']}{fd['size']}@{fd['start']}" for fd in fds) + "]"
    nrec = len(via.get("records", []))
    used = f", {nrec} record(s) written and read through it" if nrec else ""
    how = via["how"]
    if how == "fields_setter":
        s = f"the Line was constructed with the layout {span(via['fields'])}{used}, then given this layout {span(case['fields'])} by line.fields = [...]"
    elif how == "storage_setter":
        s = f"the Line was constructed with storage={via.get('storage', '')!r} and switched by line.storage = 'BINARY'"
    elif how == "both_setters":
        s = f"the Line was constructed with storage={via.get('storage', '')!r} and the layout {span(via['fields'])}, switched by line.storage = 'BINARY'{used}, then given this layout {span(case['fields'])} by line.fields = [...]"
    else:
        s = f"the field objects sat at {span(via['fields'])} when the Line was constructed{used} and were moved to {span(case['fields'])} afterwards"
    return " -- " + s + "; the record must be the one of the layout the line has when it writes"


def mk_field_holding(fd, v):
    """the field object of the description `fd`, built with its value handed to the CONSTRUCTOR
    (value=...), the way the library's own tests build fields"""
    cls = type(codec.mk_field(fd))
    k = fd["k"]
    if k in ("lit", "int"):
        return cls(fd["size"], fd["start"], value=v)
    if k == "flt":
        return cls(fd["size"], fd["start"], fd["dec"], codec.dec_str(fd["fmt"]), codec.dec_str(fd["sep"]), value=v)
    fmts = [codec.dec_str(f) for f in fd["fmts"]]
    return cls(fd["size"], fd["start"], fmts[0] if len(fmts) == 1 else fmts, value=v)


def touched_before(case):
    """earlier records went through the SAME field objects (they no longer hold what their constructors got)"""
    via = case.get("layout_via") or {}
    return bool(case.get("prior")) or (via.get("how") == "moved" and bool(via.get("records")))


def values_text(case):
    vv = case.get("values_via")
    if not vv:
        return ""
    k = min(vv.get("passed", 0), len(case["values"]))
    if vv["how"] == "constructor" and not touched_before(case):
        s = f"the values were handed to the field constructors (value=...) and Line.write was given the first {k} of the {len(case['values'])} values"
    else:
        s = f"the values were assigned by field.value = v and Line.write was given the first {k} of the {len(case['values'])} values"
    return " -- " + s + "; the record must be the one of the values the fields hold when it is written"


def run_impl(case):
    from cfinterface.components.line import Line

    try:
        with warnings.catch_warnings():
            warnings.simplefilter("ignore")
            nps = case.get("np_scalars", False)
            vv = case.get("values_via")
            if vv and vv["how"] == "constructor":
                # the values are handed to the field constructors; Line.write gets only the first `passed` of them
                fs = [mk_field_holding(fd, codec.dec_val(v, nps)) for fd, v in zip(case["fields"], case["values"])]
                fs += [codec.mk_field(fd) for fd in case["fields"][len(fs):]]
            else:
                fs = [codec.mk_field(fd) for fd in case["fields"]]
            ln = build_line(Line, fs, case)
            # records written / read earlier through the SAME line object (a file writer reuses one Line)
            for pv in case.get("prior", []):
                pw = ln.write([codec.dec_val(v, case.get("np_scalars", False)) for v in pv])
                ln.read(pw)
            vals = [codec.dec_val(v, case.get("np_scalars", False)) for v in case["values"]]
            if vv:
                if vv["how"] == "attribute" or touched_before(case):
                    # assigned to the field objects themselves (also when earlier records went through
                    # the same objects: the fields must HOLD this record's values when it is written)
                    for f, v in zip(fs, vals):
                        f.value = v
                w = ln.write(vals[: vv.get("passed", 0)])
            else:
                w = ln.write(vals)
            r = ln.read(w)
            # pre-existing target buffers: writing a field's value again into a copy of the record
            # that ends at, just inside, or beyond the field's own span must leave the record as it is
            # (the span is the field's own, everything else is untouched: C02's splice)
            rewrite_bad = None
            if isinstance(w, bytes) and len(fs) <= 8 and case.get("fam", "").startswith("mixed"):
                for f, v in zip(fs, vals):
                    a, b = f.starting_position, f.ending_position
                    if any(g is not f and g.starting_position < b and a < g.ending_position for g in fs):
                        continue
                    for L in {b, max(a + 1, b - 1), len(w)}:
                        if L < a + 1 or L > len(w):
                            continue
                        if vv and vv["how"] == "constructor":
                            # a fresh field object of the same description holding the value from its constructor
                            g = mk_field_holding(case["fields"][fs.index(f)], v)
                            out = g.write(w[:L])
                        else:
                            f.value = v
                            out = f.write(w[:L])
                        if out != w[: max(L, b)]:
                            rewrite_bad = f"field [{a},{b}) rewritten into the first {L} bytes of its own record gave {len(out)} bytes {out!r}, the record holds {w[: max(L, b)]!r}"
                            break
                    if rewrite_bad:
                        break
        if not isinstance(w, bytes):
            return {"exc": "NotBytes"}
        out = {"written": list(w), "read_back": [codec.enc_val(x) for x in r]}
        if rewrite_bad:
            out["rewrite_bad"] = rewrite_bad
        return out
    except Exception as e:
        return codec.enc_exc(e)


def request(case, obs):
    if "harness_exc" in obs:
        obs = {"exc": "harness"}
    return {"op": "c09", "fields": case["fields"], "values": case["values"], "obs": obs}


def judge(case, obs, resp):
    if "error" in resp:
        return {"status": "error", "why": resp["error"]}
    if "harness_exc" in obs:
        return {"status": "error", "why": f"harness: {obs['harness_exc']} {obs.get('msg')}"}
    if not resp["indomain"]:
        return {"status": "skip", "why": "outside the domain"}
    if not resp["model_holds"]:
        return {"status": "error", "why": f"the MODEL's cycle violates Spec.C09.holds: {show(resp.get('model'))}"}
    if "exc" in obs:
        return {"status": "oracle", "why": f"binary write/read raised {obs['exc']}: {obs.get('msg')}" + via_text(case) + values_text(case)}
    if not resp["holds"]:
        return {"status": "oracle", "why": f"got {show(obs)}; required {show(resp.get('model'))}" + via_text(case) + values_text(case)}
    if obs.get("rewrite_bad"):
        return {"status": "oracle", "why": obs["rewrite_bad"] + via_text(case) + values_text(case)}
    if not resp["agree"]:
        return {"status": "corr", "why": f"model {show(resp.get('model'))} vs implementation {show(obs)}" + via_text(case) + values_text(case)}
    return {"status": "ok", "why": ""}


def show(o):
    if not o or "written" not in o:
        return str(o)
    vals = []
    for v in o["read_back"]:
        try:
            vals.append(repr(codec.dec_val(v)))
        except Exception:
            vals.append(str(v))
    return f"bytes={bytes(o['written']).hex()} read={vals}"


def nontrivial(case):
    return any(v is not None for v in case["values"])


def features(case, obs):
    f = [f"nfields={min(len(case['fields']), 9)}"]
    for fd in case["fields"][:12]:
        f.append(f"kind={fd['k']}{fd['size'] if fd['k'] in ('int', 'flt') else ''}")
    if "fam" in case:
        f.append("family=" + case["fam"])
    via = case.get("layout_via")
    f.append("layout_via=" + (via["how"] + ("+records" if via.get("records") else "") if via else "constructor"))
    vv = case.get("values_via")
    f.append("values_via=" + (vv["how"] + ("+some_passed" if vv.get("passed") else "") if vv else "line_write"))
    return f


def signature(rec):
    return rec["verdict"]["why"][:20]


def matches_known(trigger, case):
    return False


def snippet(case):
    return f"""import sys; sys.path.insert(0, '/verif/harness'); sys.path.insert(0, '/repo')
from props import c09
case = {json.dumps(case)}
print(c09.show(c09.run_impl(case)))
"""


# ------------------------------------------------------------------ generators
def packed_fields(kind, size, n, start=0, gap=0):
    fs, pos = [], start
    for _ in range(n):
        fs.append(codec.fd_int(size, pos) if kind == "int" else codec.fd_flt(size, pos))
        pos += size + gap
    return fs


def all_int16(part, of):
    vals = list(range(-32768 + part, 32768, of))
    for i in range(0, len(vals), 64):
        chunk = vals[i : i + 64]
        yield {"fields": packed_fields("int", 2, len(chunk)), "values": [{"i": v} for v in chunk], "fam": "all_int16"}


def all_float16(part, of):
    pats = list(range(part, 65536, of))
    vals = []
    for p in pats:
        x = struct.unpack("<e", struct.pack("<H", p))[0]
        if math.isfinite(x):
            vals.append(x)
    for i in range(0, len(vals), 64):
        chunk = vals[i : i + 64]
        yield {"fields": packed_fields("flt", 2, len(chunk)), "values": [codec.enc_val(v) for v in chunk], "fam": "all_float16"}


def int_boundaries():
    for size in (2, 4, 8):
        h = 2 ** (8 * size - 1)
        vals = [0, 1, -1, h - 1, h - 2, -h, -h + 1, 255, 256, -256, 2 ** (8 * size - 9), -(2 ** (8 * size - 9)), h, -h - 1, 2 * h]
        yield {"fields": packed_fields("int", size, len(vals), 1, 1), "values": [{"i": v} for v in vals], "fam": "int_boundaries"}
        for v in vals:
            yield {"fields": [codec.fd_int(size, 0)], "values": [{"i": v}], "fam": "int_boundaries"}


def halfway_values(rng, size, n):
    """doubles exactly halfway between two adjacent values of the narrower format, and their neighbours"""
    fmt, nbits = ("<e", 16) if size == 2 else ("<f", 32)
    out = []
    for _ in range(n):
        p = rng.getrandbits(nbits - 1)  # positive
        a = struct.unpack(fmt, p.to_bytes(size, "little"))[0]
        b = struct.unpack(fmt, (p + 1).to_bytes(size, "little"))[0]
        if not (math.isfinite(a) and math.isfinite(b)):
            continue
        mid = (a + b) / 2  # exact in double
        for x in (mid, math.nextafter(mid, math.inf), math.nextafter(mid, -math.inf)):
            out.append(x if rng.random() < 0.5 else -x)
    return out


def float_specials(size):
    tiny = {2: [5.96e-8, 2.98e-8, 2.9802322387695312e-08, 6.1e-5, 6.097555160522461e-05, 65504.0, 65519.99, 65520.0, 65536.0, 1e5],
            4: [1.4e-45, 7e-46, 7.006492321624085e-46, 1.1754943508222875e-38, 3.4028234663852886e38, 3.4028235677973366e38, 3.4028235677973362e38, 1e39],
            8: [5e-324, 2.2250738585072014e-308, 1.7976931348623157e308, 1.0, 0.1]}[size]
    out = [0.0, -0.0, 1.0, -1.0, 0.5, 1.5, float("nan")]
    for t in tiny:
        out += [t, -t]
    return out


def random_float_case(rng, size, n):
    vals = []
    for _ in range(n):
        r = rng.random()
        if r < 0.5:
            b = rng.getrandbits(64)
            x = struct.unpack("<d", struct.pack("<Q", b))[0]
            if not math.isfinite(x):
                x = 1.0
            if size < 8 and rng.random() < 0.8:
                x = math.ldexp(math.frexp(x)[0], rng.randrange(-30 if size == 2 else -160, 18 if size == 2 else 130))
        elif r < 0.8 and size < 8:
            hv = halfway_values(rng, size, 3)
            x = hv[0] if hv else 0.75
        else:
            nb = {2: "<e", 4: "<f", 8: "<d"}[size]
            p = rng.getrandbits(8 * size)
            x = struct.unpack(nb, p.to_bytes(size, "little"))[0]
            if not math.isfinite(x):
                x = 2.0
        vals.append(x)
    return {"fields": packed_fields("flt", size, n, rng.randrange(0, 3), rng.choice([0, 0, 1])), "values": [codec.enc_val(v) for v in vals], "fam": f"float{8*size}_random"}


def random_layout(rng):
    n = rng.randrange(1, 8)
    pos = 0
    fields, values = [], []
    for _ in range(n):
        pos += rng.choice([0, 0, 1, 3])
        k = rng.choice(["int", "flt", "lit", "date"])
        if k == "int":
            size = rng.choice([2, 4, 8])
            h = 2 ** (8 * size - 1)
            v = rng.choice([{"i": rng.randrange(-h, h)}, {"i": rng.choice([0, -1, h - 1, -h])}, None, codec.enc_val(float("nan"))])
            fd = codec.fd_int(size, pos)
        elif k == "flt":
            size = rng.choice([2, 4, 8])
            fd = codec.fd_flt(size, pos)
            x = rng.choice(float_specials(size) + [rng.uniform(-100, 100), 10 ** rng.uniform(-5, 5)])
            v = rng.choice([codec.enc_val(x), codec.enc_val(x), None])
        elif k == "lit":
            size = rng.randrange(1, 10)
            fd = codec.fd_lit(size, pos)
            w = rng.randrange(0, size + 1)
            v = rng.choice([{"s": codec.enc_str("".join(rng.choice("abcXYZ 09-_") for _ in range(w)))}, None])
        else:
            fm, width = rng.choice([("%Y/%m/%d", 10), ("%d%m%y", 6), ("%Y%m%d%H%M", 12), ("%H:%M", 5)])
            size = width + rng.choice([0, 0, 2])
            fd = codec.fd_date(size, pos, [fm] + rng.choice([[], ["%d/%m/%Y"]]))
            v = rng.choice([codec.enc_val(datetime(rng.randrange(1000, 9999), rng.randrange(1, 13), rng.randrange(1, 29), rng.randrange(24), rng.randrange(60))), None, {"nat": True}])
        fields.append(fd)
        values.append(v)
        pos += size
    order = list(range(n))
    rng.shuffle(order)
    case = {"fields": [fields[i] for i in order], "values": [values[i] for i in order], "fam": "mixed_layout"}
    if rng.random() < 0.5:
        # earlier records through the same Line: present values where this record has missing ones and vice versa
        prior = []
        for _ in range(rng.randrange(1, 3)):
            pv = []
            for fd, v in zip(case["fields"], case["values"]):
                if fd["k"] == "int":
                    pv.append({"i": rng.randrange(1, 100)})
                elif fd["k"] == "flt":
                    pv.append(codec.enc_val(rng.choice([0.1, 1.5, -2.25])))
                elif fd["k"] == "lit":
                    pv.append({"s": codec.enc_str("q" * min(1, fd["size"]))})
                else:
                    pv.append(codec.enc_val(datetime(2001, 2, 3, 4, 5)))
            prior.append(pv)
        case["prior"] = prior
        case["fam"] = "mixed_layout_after_prior_records"
        for i in range(len(case["values"])):
            if rng.random() < 0.5:
                case["values"][i] = None
    if rng.random() < 0.25:
        case["np_scalars"] = True  # the values are numpy scalars (np.int64 / np.float64), as taken from a DataFrame
    return case


def benign_record(rng, fields):
    """a record every field of the layout accepts (used for the records of an EARLIER layout)"""
    pv = []
    for fd in fields:
        if fd["k"] == "int":
            pv.append({"i": rng.randrange(1, 100)})
        elif fd["k"] == "flt":
            pv.append(codec.enc_val(rng.choice([0.1, 1.5, -2.25])))
        elif fd["k"] == "lit":
            pv.append({"s": codec.enc_str("q" * min(rng.randrange(1, 4), fd["size"]))})
        else:
            pv.append(codec.enc_val(datetime(2001, 2, 3, 4, 5)))
    return pv


def some_field(rng, pos):
    k = rng.choice(["int", "flt", "lit", "date"])
    if k == "int":
        return codec.fd_int(rng.choice([2, 4, 8]), pos)
    if k == "flt":
        return codec.fd_flt(rng.choice([2, 4, 8]), pos)
    if k == "lit":
        return codec.fd_lit(rng.randrange(1, 13), pos)
    return codec.fd_date(10, pos, ["%Y/%m/%d"])


def with_layout_history(rng, case):
    """the same case, its Line reaching the layout through the setters instead of the constructor:
    the earlier layout is wider / narrower / empty / unrelated, used for 0-2 records or not at all"""
    fields = case["fields"]
    end = max((fd["start"] + fd["size"] for fd in fields), default=0)
    how = rng.choice(["fields_setter", "fields_setter", "fields_setter", "both_setters", "storage_setter", "moved"])
    via = {"how": how}
    if how in ("storage_setter", "both_setters"):
        via["storage"] = rng.choice(["", "TEXT"])
    if how in ("fields_setter", "both_setters"):
        rel = rng.choice(["wider", "wider", "narrower", "narrower", "empty", "unrelated", "shifted"])
        if rel == "wider":
            # this layout and further fields beyond its end
            ef, pos = [dict(fd) for fd in fields], end
            for _ in range(rng.randrange(1, 4)):
                pos += rng.choice([0, 0, 1, 5])
                fd = some_field(rng, pos)
                ef.append(fd)
                pos += fd["size"]
        elif rel == "narrower":
            keep = sorted(rng.sample(range(len(fields)), rng.randrange(0, len(fields)))) if len(fields) > 1 else []
            ef = [dict(fields[i]) for i in keep] or [codec.fd_lit(1, 0)]
        elif rel == "empty":
            ef = []
        elif rel == "shifted":
            d = rng.choice([1, 2, 8, 40])
            ef = [dict(fd, start=fd["start"] + d) for fd in fields]
        else:
            ef = random_layout(rng)["fields"]
        via["fields"] = ef
    elif how == "moved":
        lo = min(fd["start"] for fd in fields)
        mv = rng.choice(["right", "right", "spread"] + (["left"] if lo > 0 else []))
        d = rng.choice([1, 2, 8, 40])
        via["fields"] = [dict(fd, start=fd["start"] + d if mv == "right" else fd["start"] * 2 + d if mv == "spread" else fd["start"] - lo) for fd in fields]
    if "fields" in via and via["fields"]:
        recs = [benign_record(rng, via["fields"]) for _ in range(rng.choice([0, 1, 1, 2]))]
        if recs:
            via["records"] = recs
    return {**case, "layout_via": via}


def layout_history_fixed():
    """one small record per way of reaching the layout x relation of the earlier layout to it (deterministic)"""
    fields = [codec.fd_int(2, 1), codec.fd_flt(4, 3), codec.fd_lit(3, 8)]
    values = [{"i": -2}, codec.enc_val(1.5), {"s": codec.enc_str("ab")}]
    wide = fields + [codec.fd_int(8, 12), codec.fd_lit(12, 20)]
    rng = random.Random(9)
    for ef in (wide, fields[:1], [], [codec.fd_flt(8, 0), codec.fd_date(10, 30, ["%Y/%m/%d"])], [dict(fd, start=fd["start"] + 8) for fd in fields]):
        for how in ("fields_setter", "both_setters"):
            for nrec in (0, 1):
                via = {"how": how, "fields": ef}
                if how == "both_setters":
                    via["storage"] = "TEXT"
                if nrec and ef:
                    via["records"] = [benign_record(rng, ef)]
                yield {"fields": fields, "values": values, "fam": "mixed_layout_history", "layout_via": via}
                yield {"fields": fields, "values": [None, None, None], "fam": "mixed_layout_history", "layout_via": via}
    for st in ("", "TEXT"):
        yield {"fields": fields, "values": values, "fam": "mixed_layout_history", "layout_via": {"how": "storage_setter", "storage": st}}
    for ef in ([dict(fd, start=fd["start"] + 8) for fd in fields], [dict(fd, start=fd["start"] - 1) for fd in fields]):
        for nrec in (0, 1):
            via = {"how": "moved", "fields": ef}
            if nrec:
                via["records"] = [benign_record(rng, ef)]
            yield {"fields": fields, "values": values, "fam": "mixed_layout_history", "layout_via": via}


def with_values_route(rng, case):
    """the same case, its values reaching the field objects through the constructors (value=...) or
    by field.value = v, Line.write being given only the first 0..n-1 of them"""
    n = len(case["fields"])
    how = "attribute" if touched_before(case) else rng.choice(["constructor", "constructor", "attribute"])
    passed = rng.choice([0, 0, rng.randrange(0, n)])
    return {**case, "values_via": {"how": how, "passed": passed}}


def values_route_fixed():
    """field kinds x present / None / NaN / NaT x route of the values (deterministic)"""
    nan, nat = codec.enc_val(float("nan")), {"nat": True}
    kinds = []
    for size in (2, 4, 8):
        kinds.append((codec.fd_int(size, 3), {"i": -size}, nan))
        kinds.append((codec.fd_flt(size, 3), codec.enc_val(1.5), nan))
    kinds.append((codec.fd_lit(6, 3), {"s": codec.enc_str("ab")}, None))
    kinds.append((codec.fd_date(10, 3, ["%Y/%m/%d"]), codec.enc_val(datetime(2020, 1, 10)), nat))
    for how in ("constructor", "attribute"):
        for fd, present, missing in kinds:
            for v in (present, None, missing):
                for nps in (False, True):
                    c = {"fields": [fd], "values": [v], "fam": "mixed_values_route", "values_via": {"how": how, "passed": 0}}
                    if nps:
                        c["np_scalars"] = True
                    yield c
        fields = [dict(fd, start=st) for (fd, _, _), st in zip(kinds[:2] + kinds[6:], (0, 4, 9, 12))]
        pres = [p for _, p, _ in kinds[:2] + kinds[6:]]
        miss = [m for _, _, m in kinds[:2] + kinds[6:]]
        for passed in (0, 2):
            yield {"fields": fields, "values": pres, "fam": "mixed_values_route", "values_via": {"how": how, "passed": passed}}
            yield {"fields": fields, "values": miss, "fam": "mixed_values_route", "values_via": {"how": how, "passed": passed}}
            yield {"fields": fields, "values": [miss[0], pres[1], pres[2], miss[3]], "fam": "mixed_values_route", "values_via": {"how": how, "passed": passed}}


def literal_lengths():
    for size in range(1, 9):
        for w in range(0, size + 1):
            yield {"fields": [codec.fd_lit(size, 2)], "values": [{"s": codec.enc_str("abcdefgh"[:w])}], "fam": "ascii_literal_every_length"}
            if w >= 2:
                yield {"fields": [codec.fd_lit(size, 0)], "values": [{"s": codec.enc_str((" " + "abcdefgh"[: w - 2] + " "))}], "fam": "ascii_literal_every_length"}


def corpus_cases():
    d = Path(__file__).resolve().parent.parent.parent / "corpus" / PROP
    out = []
    if d.exists():
        for f in sorted(d.glob("*.json")):
            j = json.loads(f.read_text())
            out.append(j["case"] if "case" in j else j)
    return out


def chunks(tier, seed):
    ch = [{"kind": "corpus"}, {"kind": "fixed"}]
    nrand = {"quick": 3000, "thorough": 320000}.get(tier, 10000)
    for p in range(4):
        ch.append({"kind": "int16", "part": p, "of": 4})
        ch.append({"kind": "float16", "part": p, "of": 4})
    per = max(1, nrand // 8)
    for i in range(8):
        ch.append({"kind": "random", "seed": seed * 1000 + i, "n": per})
    return ch


def cases_of(chunk):
    k = chunk["kind"]
    if k == "corpus":
        yield from corpus_cases()
    elif k == "fixed":
        yield from int_boundaries()
        yield from literal_lengths()
        for size in (2, 4, 8):
            sp = float_specials(size)
            yield {"fields": packed_fields("flt", size, len(sp)), "values": [codec.enc_val(v) for v in sp], "fam": "float_specials"}
        yield from layout_history_fixed()
        yield from values_route_fixed()
    elif k == "int16":
        yield from all_int16(chunk["part"], chunk["of"])
    elif k == "float16":
        yield from all_float16(chunk["part"], chunk["of"])
    elif k == "random":
        rng = random.Random(chunk["seed"])
        # a separate stream decides how the Line reaches its layout, so the cases themselves stay as they were:
        # a third of the mixed layouts and an eighth of the others get their layout through the setters
        hrng = random.Random(chunk["seed"] * 7919 + 17)
        # and another separate stream decides how the values reach the field objects (same proportions)
        vrng = random.Random(chunk["seed"] * 104729 + 31)
        for i in range(chunk["n"]):
            r = i % 4
            if r == 0:
                c = random_layout(rng)
            elif r == 1:
                c = random_float_case(rng, rng.choice([2, 4, 8]), rng.randrange(1, 12))
            elif r == 2:
                size = rng.choice([4, 8])
                h = 2 ** (8 * size - 1)
                n = rng.randrange(1, 12)
                c = {"fields": packed_fields("int", size, n, rng.randrange(0, 3), rng.choice([0, 1])), "values": [{"i": rng.randrange(-h, h)} for _ in range(n)], "fam": f"int{8*size}_random"}
            else:
                size = rng.choice([2, 4])
                hv = halfway_values(rng, size, 4)
                c = {"fields": packed_fields("flt", size, len(hv)), "values": [codec.enc_val(v) for v in hv], "fam": f"float{8*size}_halfway"}
            if c["fields"] and hrng.random() < (1 / 3 if r == 0 else 1 / 8):
                c = with_layout_history(hrng, c)
            if c["fields"] and vrng.random() < (1 / 3 if r == 0 else 1 / 8):
                c = with_values_route(vrng, c)
            yield c


def shrinks(case):
    n = len(case["fields"])
    if case.get("prior"):
        yield {k: v for k, v in case.items() if k != "prior"}
        if len(case["prior"]) > 1:
            yield {**case, "prior": case["prior"][:1]}
    vv = case.get("values_via")
    if vv:
        yield {k: v for k, v in case.items() if k != "values_via"}
        if vv.get("passed"):
            yield {**case, "values_via": {**vv, "passed": 0}}
    via = case.get("layout_via")
    if via:
        yield {k: v for k, v in case.items() if k != "layout_via"}
        if via.get("records"):
            yield {**case, "layout_via": {k: v for k, v in via.items() if k != "records"}}
        if via["how"] == "both_setters":
            yield {**case, "layout_via": {k: v for k, v in via.items() if k != "storage"} | {"how": "fields_setter"}}
        if via["how"] in ("fields_setter", "both_setters") and len(via["fields"]) > 1:
            for i in range(len(via["fields"])):
                yield {**case, "layout_via": {**via, "fields": [via["fields"][i]], **({"records": [[pv[i]] for pv in via["records"]]} if via.get("records") else {})}}
    if via and via["how"] == "moved":
        # the earlier positions belong to the same field objects: shrink both together
        if n > 1:
            for i in range(n):
                yield {**case, "fields": [case["fields"][i]], "values": [case["values"][i]], **({"prior": [[pv[i]] for pv in case["prior"]]} if case.get("prior") else {}),
                       "layout_via": {**via, "fields": [via["fields"][i]], **({"records": [[pv[i]] for pv in via["records"]]} if via.get("records") else {})}}
        return
    if n > 1:
        for i in range(n):
            yield {**case, "fields": [case["fields"][i]], "values": [case["values"][i]], **({"prior": [[pv[i]] for pv in case["prior"]]} if case.get("prior") else {})}
        for i in range(n):
            yield {**case, "fields": case["fields"][:i] + case["fields"][i + 1 :], "values": case["values"][:i] + case["values"][i + 1 :]}
    elif case["fields"][0]["start"] > 0:
        yield {**case, "fields": [dict(case["fields"][0], start=0)]}
