"""C07 — linked containers stay a faithful ordered list under every history."""
from __future__ import annotations

import itertools
import json
import random
from pathlib import Path

PROP = "C07"
LEAN_MODULES = ["Props.C07", "Props.Legacy"]
RULE = (
    "case = (container family, value label per element id, operation history); the history is run on the real "
    "RegisterData/BlockData/SectionData and after EVERY operation the observation (iteration ids, len, first, last, "
    "each member's previous/next/is_first/is_last, backward walk) is compared with the Lean model and with "
    "Spec.C07.holds on the abstract list. Sources: corpus; exhaustive inductive step (every state of size<=N built "
    "with stale removed elements x every set partition of value-equality x every admissible op); every API history to "
    "depth D; random long histories. With `loops` (one entry per operation: null = plain call, t = the call is made "
    "from the body of a complete for-loop over the same container when the loop reaches its t-th element, or right "
    "after the loop if it is shorter) the container is not looked at while a history runs: the observation after i "
    "operations is taken from a fresh container that received the first i operations in this way, so loops in "
    "progress during a change, loops completed before it and the absence of any earlier observation are all part of "
    "the history, and the expected observation stays the model's for the plain operation sequence. An entry \"self\" "
    "(remove operations only) makes the call when a for-loop over the container reaches the very member to be "
    "removed, and consecutive entries \"self\" share ONE loop (`for x in c: if x is one of them: c.remove(x)`, the "
    "filter idiom: several removals, each of the element being visited, while the loop runs on). "
    "non-trivial = history contains at least one operation; distinct by full case."
)
ASSUMPTIONS = [
    "object identity is mapped to creation-order ids on both sides",
    "element truthiness is Python's default (no __bool__/__len__ on elements), as in cfinterface",
]
TRUSTED = ["harness element subclasses (value equality by data) used to realise value-equal members"]
EXHAUSTIVE = {"quick": False, "thorough": False}
FAMILIES = ["register", "block", "section"]


# ------------------------------------------------------------------ impl side
def _classes():
    from cfinterface.components.register import Register
    from cfinterface.components.block import Block
    from cfinterface.components.section import Section
    from cfinterface.data.registerdata import RegisterData
    from cfinterface.data.blockdata import BlockData
    from cfinterface.data.sectiondata import SectionData

    class R(Register):
        pass

    class B(Block):
        def __eq__(self, o):
            return isinstance(o, self.__class__) and o.data == self.data

    class S(Section):
        def __eq__(self, o):
            return isinstance(o, self.__class__) and o.data == self.data

    return {"register": (R, RegisterData), "block": (B, BlockData), "section": (S, SectionData)}


_CLS = None


def classes():
    global _CLS
    if _CLS is None:
        _CLS = _classes()
    return _CLS


def fuel_of(case) -> int:
    ids = {0}
    for op in case["ops"]:
        ids.update(op[1:])
    return len(ids) + 2


def observe(container, ident, fuel):
    it = []
    cur = container.first
    # the same loop as __iter__, capped (a cyclic mutant must not hang the harness)
    gen = iter(container)
    for _ in range(fuel):
        try:
            it.append(next(gen))
        except StopIteration:
            break
    capped = len(it) >= fuel
    ln = fuel if capped else len(container)
    back = []
    cur = container.last
    for _ in range(fuel):
        if cur is None:
            break
        back.append(cur)
        cur = cur.previous
    oid = lambda x: None if x is None else ident.get(id(x), 9999)
    # overlapping iterations over the same container (capped like the plain one)
    import itertools

    zipped = [[oid(a), oid(b)] for a, b in itertools.islice(zip(container, container), fuel)]
    nested = []
    for a in itertools.islice(container, 3):
        for b in itertools.islice(container, fuel):
            nested.append([oid(a), oid(b)])
    return {
        "iter": [oid(x) for x in it],
        "len": ln,
        "first": oid(container.first),
        "last": oid(container.last),
        "links": [[oid(x), oid(x.previous), oid(x.next), bool(x.is_first), bool(x.is_last)] for x in it],
        "back": [oid(x) for x in back],
        "zipped": zipped,
        "nested": nested,
    }


def big_container(case):
    """a container of `big` members (more than any small bound a walk might be capped at), built by
    appends, prepends and insertions in the middle; observed ONCE at the end, against the list that
    received the same operations (the history theorem covers every length; this ties the real
    classes to it beyond the sizes the op-by-op comparison can afford)"""
    ecls, ccls = classes()[case["family"]]
    n = case["big"]
    root = ecls(data=[0])
    c, model = ccls(root), [root]
    for i in range(1, n):
        e = ecls(data=[i % 7])
        r = i % 5
        if r == 0:
            c.preppend(e)
            model.insert(0, e)
        elif r == 1 and len(model) > 3:
            c.add_after(model[len(model) // 2], e)
            model.insert(len(model) // 2 + 1, e)
        elif r == 2 and len(model) > 3:
            c.add_before(model[len(model) // 3], e)
            model.insert(len(model) // 3, e)
        else:
            c.append(e)
            model.append(e)
    import itertools

    it = list(itertools.islice(iter(c), n + 5))
    why = None
    if len(it) != len(model) or any(a is not b for a, b in zip(it, model)):
        why = f"iteration yields {len(it)} element(s), the list has {len(model)}"
    elif len(c) != len(model):
        why = f"len() is {len(c)}, the list has {len(model)}"
    elif c.first is not model[0] or c.last is not model[-1]:
        why = "first / last are not the ends of the list"
    else:
        back, cur = 0, c.last
        while cur is not None and back <= n + 5:
            back += 1
            cur = cur.previous
        if back != len(model):
            why = f"the walk of previous links from last visits {back} element(s), the list has {len(model)}"
    return {"obs": [], "exc": None, "big_why": why}


def _apply(c, el, op):
    name = op[0]
    if name == "prepend":
        c.preppend(el(op[1], next=c.first))
    elif name == "append":
        c.append(el(op[1], previous=c.last))
    elif name == "add_before":
        a = el(op[1])
        c.add_before(a, el(op[2], previous=a.previous, next=a))
    elif name == "add_after":
        a = el(op[1])
        c.add_after(a, el(op[2], previous=a, next=a.next))
    elif name == "remove":
        c.remove(el(op[1]))


def _apply_in_loop(c, el, op, t, cap):
    """the usual `for x in container: if <this is the one>: container.<op>(...)`: the call is made once, when the
    loop reaches its t-th element, and the loop then runs on to its end (or the call follows a complete loop that
    was shorter than that); the cap only keeps a cyclic chain from hanging the harness"""
    done, n = False, 0
    for _x in c:
        if n == t and not done:
            done = True
            _apply(c, el, op)
        n += 1
        if n > cap:
            break
    if not done:
        _apply(c, el, op)


def _apply_filter_loop(c, el, group, cap):
    """`for x in container: if x is one of the victims: container.remove(x)`: every removal of the group is made by
    one loop over the container, each when the loop reaches the member concerned (removals of different members
    commute, so the result is that of the plain sequence whatever the order the members stand in)"""
    victims = [el(op[1]) for op in group]
    n = 0
    for x in c:
        if any(x is v for v in victims):
            c.remove(x)
        n += 1
        if n > cap:
            break


def _run_prefix(c, el, ops, loops, cap, at):
    """ops made one after the other in the way `loops` says; at[0] is kept at the index of the operation in hand"""
    j = 0
    while j < len(ops):
        at[0] = j
        t = loops[j] if j < len(loops) else None
        if t == "self" and ops[j][0] == "remove":
            k = j
            while k < len(ops) and k < len(loops) and loops[k] == "self" and ops[k][0] == "remove":
                k += 1
            _apply_filter_loop(c, el, ops[j:k], cap)
            j = k
            continue
        if t is None or t == "self":
            _apply(c, el, ops[j])
        else:
            _apply_in_loop(c, el, ops[j], t, cap)
        j += 1


def _fresh(case):
    ecls, ccls = classes()[case["family"]]
    vals = case["vals"]
    elems, ident = {}, {}

    def el(i, **links):
        if i not in elems:
            v = vals[i] if i < len(vals) else i
            # with `ctor_links` a new element is built with the constructor's own previous= / next= arguments
            # naming the members it is about to stand between: the insert operation sets the links anyway
            e = ecls(data=[v], **(links if case.get("ctor_links") else {}))
            elems[i] = e
            ident[id(e)] = i
        return elems[i]

    return ccls(el(0)), el, ident


def run_unobserved(case):
    """`loops` cases: observation #i comes from a fresh container that received ops[:i] with nothing looking at it
    in between (op j made from inside a for-loop over the container when loops[j] is a number)"""
    fuel = fuel_of(case)
    ops, loops = case["ops"], case["loops"]
    obs, exc = [], None
    for i in range(len(ops) + 1):
        c, el, ident = _fresh(case)
        at = [0]
        try:
            _run_prefix(c, el, ops[:i], loops, 4 * fuel, at)
        except Exception as e:
            exc = {"step": at[0] + 1, "exc": type(e).__name__, "msg": str(e)[:200]}
            break
        obs.append(observe(c, ident, fuel))
    return {"obs": obs, "exc": exc}


def run_impl(case):
    if case.get("big"):
        return big_container(case)
    if case.get("loops") is not None:
        return run_unobserved(case)
    c, el, ident = _fresh(case)
    fuel = fuel_of(case)
    obs = [observe(c, ident, fuel)]
    exc = None
    for op in case["ops"]:
        try:
            _apply(c, el, op)
            obs.append(observe(c, ident, fuel))
        except Exception as e:
            exc = {"step": len(obs), "exc": type(e).__name__, "msg": str(e)[:200]}
            break
    return {"obs": obs, "exc": exc}


def request(case, obs):
    return {"op": "c07", "root": 0, "fuel": fuel_of(case), "ops": case["ops"], "obs": obs.get("obs", [])}


def judge(case, obs, resp):
    if "error" in resp:
        return {"status": "error", "why": resp["error"]}
    if "harness_exc" in obs:
        return {"status": "error", "why": f"harness: {obs['harness_exc']} {obs.get('msg')}"}
    if case.get("big"):
        return {"status": "oracle", "why": f"container of {case['big']} members: {obs['big_why']}"} if obs.get("big_why") else {"status": "ok", "why": ""}
    if not resp["histok"]:
        return {"status": "skip", "why": "history not admissible"}
    f = resp["fail"]
    if f is not None:
        if not f["model_holds"]:
            return {"status": "error", "why": "model violates Spec.C07.holds (theorem would be false)"}
        if not f["holds"]:
            how = ""
            if case.get("loops") is not None and f["step"] > 0:
                lp = list(case["loops"])[: f["step"]]
                how = " (fresh container, not looked at before; " + ", ".join(
                    f"op #{j + 1} " + ("called plainly" if t is None else
                                       "called inside a for-loop over the container when it reaches the member to be removed"
                                       + (" (same loop as the op before)" if j and lp[j - 1] == "self" else "") if t == "self" else
                                       f"called inside a for-loop over the container at its element #{t}")
                    for j, t in enumerate(lp)) + ")"
            return {"status": "oracle", "why": f"after op #{f['step']}{how} the container differs from the list {f['spec_list']}"}
        return {"status": "corr", "why": f"model/implementation disagree after op #{f['step']}"}
    if obs.get("exc"):
        e = obs["exc"]
        return {"status": "oracle", "why": f"op #{e['step']} raised {e['exc']}: {e['msg']}"}
    return {"status": "ok", "why": ""}


def nontrivial(case):
    return len(case["ops"]) > 0 or bool(case.get("big"))


def features(case, obs):
    f = [f"family={case['family']}", f"len={min(len(case['ops']), 12) if len(case['ops']) <= 12 else '13+'}"]
    f += [f"op={op[0]}" for op in case["ops"][:40]]
    if len(set(case["vals"])) < len(case["vals"]):
        f.append("value_equal_members")
    if case.get("ctor_links"):
        f.append("elements_built_with_link_arguments")
    if case.get("loops") is not None:
        f.append("unobserved_history")
        f += [f"in_loop_op={op[0]}" for op, t in zip(case["ops"], case["loops"]) if t is not None]
        k = run = 0
        for op, t in zip(case["ops"], case["loops"]):
            run = run + 1 if (t == "self" and op[0] == "remove") else 0
            k = max(k, run)
        if k:
            f.append(f"filter_loop_removals={min(k, 4)}")
    return f


def signature(rec):
    return rec["case"]["ops"][-1][0] if rec["case"]["ops"] else "init"


def matches_known(trigger, case):
    return False


def snippet(case):
    return f"""import sys; sys.path.insert(0, '/verif/harness'); sys.path.insert(0, '/repo')
from props import c07
case = {json.dumps(case)}
out = c07.run_impl(case)
print('ids in iteration order after each op:', [o['iter'] for o in out['obs']], out['exc'])
"""


# ------------------------------------------------------------------ spec list (for generators only)
def spec_apply(l, removed, op):
    name = op[0]
    l = list(l)
    if name == "prepend":
        l.insert(0, op[1])
    elif name == "append":
        l.append(op[1])
    elif name == "add_before":
        l.insert(l.index(op[1]), op[2])
    elif name == "add_after":
        l.insert(l.index(op[1]) + 1, op[2])
    elif name == "remove":
        l.remove(op[1])
    return l


def admissible_ops(l, removed, fresh):
    """All admissible next ops; new elements are the next fresh id or any removed id."""
    news = [fresh] + sorted(removed)
    ops = []
    for n in news:
        ops.append(["prepend", n])
        ops.append(["append", n])
        for b in l:
            ops.append(["add_before", b, n])
            ops.append(["add_after", b, n])
    if len(l) > 1:
        for r in l:
            ops.append(["remove", r])
    return ops


def all_histories(depth):
    """DFS over every admissible API history of length <= depth from [0]."""

    def rec(l, removed, fresh, hist):
        yield list(hist)
        if len(hist) == depth:
            return
        for op in admissible_ops(l, removed, fresh):
            l2 = spec_apply(l, removed, op)
            rem2 = set(removed)
            if op[0] == "remove":
                rem2.add(op[1])
            else:
                rem2.discard(op[-1])
            fr2 = fresh + 1 if op[-1] == fresh and op[0] != "remove" else fresh
            hist.append(op)
            yield from rec(l2, rem2, fr2, hist)
            hist.pop()

    yield from rec([0], set(), 1, [])


def set_partitions(n):
    """restricted growth strings of length n"""

    def rec(prefix, m):
        if len(prefix) == n:
            yield list(prefix)
            return
        for v in range(m + 1):
            prefix.append(v)
            yield from rec(prefix, max(m, v + 1))
            prefix.pop()

    yield from rec([], 0)


def inductive_step_cases(maxsize, family):
    """Every state of size k<=maxsize (built by appends; plus j<=1 removed element
    carrying stale links, removed from the front/middle/back) x every value
    partition x every admissible op."""
    for k in range(1, maxsize + 1):
        for stale in [None, "front", "mid", "back"]:
            setup = [["append", i] for i in range(1, k)]
            l = list(range(k))
            removed = set()
            fresh = k
            if stale is not None:
                if k < 2:
                    continue
                # add one more then remove from the chosen position
                setup.append(["append", k])
                l.append(k)
                victim = {"front": l[0], "mid": l[len(l) // 2], "back": l[-1]}[stale]
                setup.append(["remove", victim])
                l.remove(victim)
                removed = {victim}
                fresh = k + 1
            for op in admissible_ops(l, removed, fresh):
                nids = fresh + 1
                parts = list(set_partitions(nids)) if nids <= 5 else None
                if parts is None:
                    # sample of partitions for the larger states: all-distinct, all-equal, and the
                    # ones that identify the op's arguments with the first/last element
                    parts = [list(range(nids)), [0] * nids]
                    for a in op[1:]:
                        for end in (l[0], l[-1]):
                            p = list(range(nids))
                            p[a] = p[end]
                            parts.append(p)
                for p in parts:
                    yield {"family": family, "vals": p, "ops": setup + [op]}


def random_history(rng: random.Random, length, family):
    l, removed, fresh, ops = [0], set(), 1, []
    for _ in range(length):
        cands = admissible_ops(l, removed, fresh)
        # bias towards growth early, churn later
        op = rng.choice(cands)
        if len(l) > 8 and rng.random() < 0.5:
            op = ["remove", rng.choice(l)]
        l = spec_apply(l, removed, op)
        if op[0] == "remove":
            removed.add(op[1])
        else:
            removed.discard(op[-1])
            if op[-1] == fresh:
                fresh += 1
        ops.append(op)
    nvals = rng.choice([1, 2, 3, fresh])
    vals = [rng.randrange(nvals) for _ in range(fresh + 1)]
    return {"family": family, "vals": vals, "ops": ops}


def filter_loop_variant(case, rng: random.Random):
    """a history that keeps a prefix of the case's operations (made plainly or from inside loops, as drawn here),
    then drops a chosen subset of the members with ONE filter loop, then goes on with a few more operations"""
    ops = [list(op) for op in case["ops"][: rng.randrange(0, 9)]]
    l, removed, fresh = [0], set(), 1

    def step(op):
        nonlocal l, fresh
        l = spec_apply(l, removed, op)
        if op[0] == "remove":
            removed.add(op[1])
        else:
            removed.discard(op[-1])
            if op[-1] == fresh:
                fresh += 1

    for op in ops:
        step(op)
    while len(l) < 3:
        op = [rng.choice(["append", "prepend"]), fresh]
        ops.append(op)
        step(op)
    loops = [rng.randrange(0, 4) if rng.random() < 0.3 else None for _ in ops]
    victims = [x for x in l if rng.random() < 0.5][: len(l) - 1] or [l[rng.randrange(len(l) - 1)]]
    if rng.random() < 0.25:
        rng.shuffle(victims)
    for v in victims:
        ops.append(["remove", v])
        loops.append("self")
        step(["remove", v])
    for _ in range(rng.randrange(0, 3)):
        op = rng.choice(admissible_ops(l, removed, fresh))
        ops.append(op)
        loops.append("self" if op[0] == "remove" and rng.random() < 0.5 else None)
        step(op)
    nvals = rng.choice([1, 2, fresh])
    vals = [rng.randrange(nvals) for _ in range(fresh + 1)]
    out = {"family": case["family"], "vals": vals, "ops": ops, "loops": loops}
    if case.get("ctor_links"):
        out["ctor_links"] = True
    return out


# ------------------------------------------------------------------ chunks
def corpus_cases():
    d = Path(__file__).resolve().parent.parent.parent / "corpus" / PROP
    out = []
    if d.exists():
        for f in sorted(d.glob("*.json")):
            j = json.loads(f.read_text())
            out.append(j["case"] if "case" in j else j)
    return out


def chunks(tier, seed):
    ch = [{"kind": "corpus"}]
    if tier == "quick":
        step, depth, nrand, rlen, parts = 4, 4, 1500, 30, 12
    elif tier == "thorough":
        step, depth, nrand, rlen, parts = 6, 5, 120000, 60, 48
    else:  # search
        step, depth, nrand, rlen, parts = 5, 4, 6000, 40, 16
    ch.append({"kind": "big"})
    for fam in FAMILIES:
        ch.append({"kind": "step", "family": fam, "maxsize": step})
    for i in range(parts):
        ch.append({"kind": "hist", "family": "register", "depth": depth, "part": i, "of": parts})
    for fam in ["block", "section"]:
        for i in range(4):
            ch.append({"kind": "hist", "family": fam, "depth": depth - 1, "part": i, "of": 4})
    per = max(1, nrand // 12)
    for i in range(12):
        ch.append({"kind": "random", "family": FAMILIES[i % 3], "seed": seed * 1000 + i, "n": per, "len": rlen})
    return ch


def cases_of(chunk):
    k = chunk["kind"]
    if k == "corpus":
        yield from corpus_cases()
    elif k == "big":
        for fam in FAMILIES:
            yield {"family": fam, "vals": [0], "ops": [], "big": 10007}
            yield {"family": fam, "vals": [0], "ops": [], "big": 70001}
    elif k == "step":
        yield from inductive_step_cases(chunk["maxsize"], chunk["family"])
    elif k == "hist":
        for i, h in enumerate(all_histories(chunk["depth"])):
            if i % chunk["of"] == chunk["part"]:
                nid = 1 + max([0] + [x for op in h for x in op[1:]])
                yield {"family": chunk["family"], "vals": list(range(nid)), "ops": h}
                if h and i % 3 == 0:
                    yield {"family": chunk["family"], "vals": [0] * nid, "ops": h}
                if h and i % 4 == 1:
                    yield {"family": chunk["family"], "vals": list(range(nid)), "ops": h, "ctor_links": True}
                if h and i % 5 == 2:
                    # three calls in four made from inside a loop over the container (at its element #0, #1 or #2)
                    loops = [None if (i + j) % 4 == 3 else (i // 5 + j) % 3 for j in range(len(h))]
                    yield {"family": chunk["family"], "vals": [0] * nid if i % 2 else list(range(nid)), "ops": h, "loops": loops}
                if i % 3 == 1 and any(op[0] == "remove" for op in h):
                    # every removal made when a loop over the container reaches the member (consecutive ones: one loop)
                    loops = ["self" if op[0] == "remove" else (None if (i + j) % 2 else j % 3) for j, op in enumerate(h)]
                    yield {"family": chunk["family"], "vals": [0] * nid if i % 2 else list(range(nid)), "ops": h, "loops": loops}
    elif k == "random":
        rng = random.Random(chunk["seed"])
        for _ in range(chunk["n"]):
            c = random_history(rng, rng.randrange(1, chunk["len"] + 1), chunk["family"])
            if rng.random() < 0.3:
                c["ctor_links"] = True
            if len(c["ops"]) <= 14 and rng.random() < 0.5:
                c["loops"] = [rng.randrange(0, 5) if rng.random() < 0.6 else None for _ in c["ops"]]
            yield c
            # a stream of its own (the draws above stay what they were)
            rng2 = random.Random("filter-loop " + json.dumps(c, sort_keys=True))
            if rng2.random() < 0.25:
                yield filter_loop_variant(c, rng2)


def shrinks(case):
    ops = case["ops"]
    lp = case.get("loops")
    cut = lambda f: {} if lp is None else {"loops": f(list(lp) + [None] * (len(ops) - len(lp)))}
    # drop one op (keeping admissibility is checked by the driver: inadmissible -> skip)
    for i in range(len(ops)):
        yield {**case, "ops": ops[:i] + ops[i + 1 :], **cut(lambda l: l[:i] + l[i + 1 :])}
    # truncate
    for i in range(len(ops) - 1, 0, -1):
        yield {**case, "ops": ops[:i], **cut(lambda l: l[:i])}
    if lp is not None:
        # plain calls instead of calls from inside a loop, one at a time, then an earlier loop position
        for i, t in enumerate(lp):
            if t is not None:
                yield {**case, "loops": lp[:i] + [None] + lp[i + 1 :]}
        for i, t in enumerate(lp):
            if isinstance(t, int) and t:
                yield {**case, "loops": lp[:i] + [t - 1] + lp[i + 1 :]}
    # make values distinct
    if len(set(case["vals"])) < len(case["vals"]):
        yield {**case, "vals": list(range(len(case["vals"])))}
