"""C08 — container queries and bulk removal select exactly the matching members."""
from __future__ import annotations

import itertools
import json
import random
import zlib
from pathlib import Path

from props import c07

PROP = "C08"
LEAN_MODULES = ["Props.C08", "Props.Legacy"]
RULE = (
    "case = (family, class table with a subclass edge, per-element class and attribute vector incl. value-equal "
    "duplicates, structural history as in C07, requested type incl. a foreign one, filter dict over 0-3 attributes "
    "with matching / non-matching / None values). Observed on the real container: list(of_type(t)), "
    "get_*_of_type(t, **filter) (shape None / element / list), iteration and len() after the getter, iteration and len() after "
    "remove_*_of_type. Compared with the Lean model and with Spec.C08.holds on the abstract list. "
    "Overlapping queries: before the removal, a schedule of 2-5 read-only queries on the SAME container (plain iteration, "
    "of_type of the requested or of another type, the filtered getter, len()) is advanced one step at a time in a generated "
    "interleaving (nested loops, zip of two iterations, a getter or len() inside a loop, iterators created up front or on first use), "
    "each query's own result compared with what the model gives for that query alone (fixed patterns on the exhaustive part, 60% of the random cases). "
    "Edited members: the elements are built with EARLIER attribute values, the container is assembled, a warm-up of 1-4 read-only queries "
    "(the same filtered getter, the getter with another filter or type, of_type, iteration, len()) is made, then 1-3 elements get the case's attribute values "
    "(data replaced through the setter or edited in place; no structural operation in between) and only then the observed queries and the removal run: "
    "they must answer what the model gives for the case's values alone, the selection looks at the attributes AT THE TIME OF THE CALL "
    "(a fixed pattern on a third of the exhaustive part, 50% of the random cases). "
    "Classes declared late: 1-2 classes of the table (and the classes deriving from them) do not exist yet while the container is being assembled; up to a generated point of the "
    "history 1-4 read-only queries by the types that exist so far (of_type, the getter; on the container as assembled so far or on another container of the family) are made, "
    "each late class statement runs only when the program first needs it (an element of it is built, or it is the requested type), its elements are added afterwards: the observed "
    "queries and the removal must answer what the model gives for the finished container alone, membership is instance-of AT THE TIME OF THE CALL "
    "(a fixed pattern on a quarter of the exhaustive part, 50% of the random cases, drawn from a stream of its own derived from the case). "
    "Exhaustive part: all containers of <=4 elements x 3 classes x 2 attribute values x all types x filters. "
    "non-trivial = at least one member is an instance of the requested type; distinct by full case."
)
ASSUMPTIONS = [
    "filter attributes are properties defined on every element class of the harness (the property's domain: attributes defined on the type)",
    "attribute values are ints or None; equality is Python int equality",
]
TRUSTED = ["harness element classes (properties a0..a2 over data)"]
EXHAUSTIVE = {"quick": False, "thorough": False}
NATTR = 3


def _build(family, parents, late=(), staged=False):
    from cfinterface.components.register import Register
    from cfinterface.components.block import Block
    from cfinterface.components.section import Section
    from cfinterface.data.registerdata import RegisterData
    from cfinterface.data.blockdata import BlockData
    from cfinterface.data.sectiondata import SectionData

    base, ccls = {"register": (Register, RegisterData), "block": (Block, BlockData), "section": (Section, SectionData)}[family]

    def mkprop(i):
        return property(lambda self: self.data[i])

    ns = {f"a{i}": mkprop(i) for i in range(NATTR)}
    if family != "register":
        ns["__eq__"] = lambda self, o: isinstance(o, self.__class__) and o.data == self.data
        ns["__hash__"] = None
    Base = type("HBase", (base,), ns)
    classes = [None] * len(parents)

    def declare(i):
        """the class statement of K{i} is executed now (and those of its ancestors, if not yet)"""
        if classes[i] is None:
            p = parents[i]
            classes[i] = type(f"K{i}", (Base if p is None else declare(p),), {})
        return classes[i]

    for i in range(len(parents)):
        if i not in late:
            declare(i)
    return (classes, ccls, declare) if staged else (classes, ccls)


def late_closure(case):
    """class indices declared late: the listed ones and every class deriving from them (a class statement needs its base)"""
    lt = case.get("late")
    if not lt:
        return set()
    parents = case["parents"]
    late = {i for i in lt.get("classes", []) if 0 <= i < len(parents)}
    for i in range(len(parents)):  # parents precede their children in the tables
        if parents[i] is not None and parents[i] in late:
            late.add(i)
    return late


def oid(ident, x):
    return None if x is None else ident.get(id(x), 9999)


def capped_iter(c, fuel):
    out = []
    gen = iter(c)
    for _ in range(fuel):
        try:
            out.append(next(gen))
        except StopIteration:
            break
    return out


def _shape(ident, g):
    if g is None:
        return {"shape": "none"}
    if isinstance(g, list):
        return {"shape": "many", "xs": [oid(ident, x) for x in g]}
    return {"shape": "one", "x": oid(ident, g)}


def run_overlap(ov, c, classes, ident, fuel, get):
    """threads: ["iter"] | ["of_type", class index (out of range = foreign)] | ["get"] | ["len"];
    sched: thread indices, each entry advances that query by one step (an iteration by one next(),
    a call is made in its single step); afterwards every query is run to its end, in thread order.
    eager: the iterators are all created before the first step (otherwise each on its first step)."""
    threads = ov["threads"]
    its, res, done = {}, [None] * len(threads), [False] * len(threads)

    def make(k):
        th = threads[k]
        if th[0] == "iter":
            its[k] = iter(c)
            res[k] = []
        elif th[0] == "of_type":
            its[k] = c.of_type(classes[th[1]] if th[1] < len(classes) else str)
            res[k] = []

    def step(k):
        if done[k]:
            return
        th = threads[k]
        if th[0] == "get":
            res[k], done[k] = _shape(ident, get()), True
        elif th[0] == "len":
            res[k], done[k] = len(c), True
        else:
            if k not in its:
                make(k)
            if len(res[k]) > fuel:
                done[k] = True
                return
            try:
                res[k].append(oid(ident, next(its[k])))
            except StopIteration:
                done[k] = True

    if ov.get("eager"):
        for k in range(len(threads)):
            make(k)
    for k in ov["sched"]:
        if 0 <= k < len(threads):
            step(k)
    for k in range(len(threads)):
        while not done[k]:
            step(k)
    return res


def run_warm(warm, c, classes, t, kwargs, getter, fuel):
    """queries: ["get"] the case's own filtered lookup | ["get_flt", [[k, v], ...]] same type, another filter |
    ["get_type", class index] another type, the case's filter | ["of_type", class index] | ["iter"] | ["len"]; results are discarded"""
    for q in warm.get("queries", []):
        if q[0] == "get":
            getattr(c, getter)(t, **kwargs)
        elif q[0] == "get_flt":
            getattr(c, getter)(t, **{f"a{k}": v for k, v in q[1]})
        elif q[0] == "get_type":
            getattr(c, getter)(classes[q[1]] if q[1] < len(classes) else str, **kwargs)
        elif q[0] == "of_type":
            g = c.of_type(classes[q[1]] if q[1] < len(classes) else str)
            for _ in range(fuel):
                if next(g, None) is None:
                    break
        elif q[0] == "iter":
            capped_iter(c, fuel)
        elif q[0] == "len":
            len(c)


def edit_element(e, attrs, inplace):
    if inplace:
        for k, v in enumerate(attrs):
            if e.data[k] != v or (e.data[k] is None) != (v is None):
                e.data[k] = v
    else:
        e.data = list(attrs)
    e.tag = attrs[0]


def warm_text(case):
    w = case.get("warm")
    if not w:
        return ""
    qs = []
    for q in w.get("queries", []):
        if q[0] == "get":
            qs.append("the same filtered getter")
        elif q[0] == "get_flt":
            qs.append(f"the getter with filter {q[1]}")
        elif q[0] == "get_type":
            qs.append(f"the getter for {_thread_name(case, ['of_type', q[1]])}")
        else:
            qs.append(_thread_name(case, q))
    eds = [f"element {i}: {a} -> {case['elems'][i][1]}" for i, a in w.get("pre", [])]
    return (f"; BEFORE that, warm-up queries [{', '.join(qs)}] were made on the assembled container while {len(eds)} element(s) held earlier attribute values, "
            f"then those were edited ({'in place' if w.get('inplace') else 'data setter'}, no structural operation): {'; '.join(eds)}")


def late_text(case):
    late = late_closure(case)
    if not late:
        return ""
    lt = case["late"]
    qs = [("the getter by " + _thread_name(case, ["of_type", q[1]])[8:-1]) if q[0] == "get_type" else _thread_name(case, q) for q in lt.get("queries", [])
          if len(q) < 2 or q[1] not in late]
    return (f"; class(es) {['K%d' % i for i in sorted(late)]} were DECLARED LATE: before their class statements ran, the queries [{', '.join(qs)}] were made on "
            f"{'another container of the family' if lt.get('scratch') else 'the container as assembled so far (another one if it did not exist yet)'}"
            f" (not later than before op #{lt.get('at', 0)}); the elements of those classes were built and added afterwards")


def overlap_expected(case, exp):
    """what each query of the overlap answers on its own, from the model's expected observation"""
    parents, members = case["parents"], exp["iter_after_get"]

    def sub(c, t):
        while c is not None:
            if c == t:
                return True
            c = parents[c]
        return False

    out = []
    for th in case["overlap"]["threads"]:
        if th[0] == "iter":
            out.append(members)
        elif th[0] == "of_type":
            if th[1] == case["type"]:
                out.append(exp["of_type"])
            else:
                out.append([i for i in members if th[1] < len(parents) and sub(case["elems"][i][0], th[1])])
        elif th[0] == "get":
            out.append(exp["get"])
        else:
            out.append(exp["len_after_get"])
    return out


def _thread_name(case, th):
    if th[0] == "of_type":
        return f"of_type(K{th[1]})" if th[1] < len(case["parents"]) else "of_type(foreign)"
    return {"iter": "iter(container)", "get": "the filtered getter", "len": "len(container)"}[th[0]]


def run_impl(case):
    late = late_closure(case)
    classes, ccls, declare = _build(case["family"], case["parents"], late, staged=True)
    elems, ident = {}, {}

    def el(i):
        if i not in elems:
            ci, attrs = case["elems"][i]
            attrs = pre.get(i, attrs)  # the values the element holds until the warm-up is over
            e = declare(ci)(data=list(attrs))
            e.tag = attrs[0]  # a plain instance attribute (not a property of the class) with the value of a0
            elems[i] = e
            ident[id(e)] = i
        return elems[i]

    warm = case.get("warm") or {}
    pre = {int(i): list(a) for i, a in warm.get("pre", [])}
    fuel = c07.fuel_of(case)
    getter = {"register": "get_registers_of_type", "block": "get_blocks_of_type", "section": "get_sections_of_type"}[case["family"]]
    lt = case.get("late") or {}
    early_done = not late

    def early(cont):
        # first use of the classes that exist so far in queries (results discarded); the late classes are declared
        # only afterwards, each when the program first needs it (an element of it is built, or it is the requested type)
        nonlocal early_done
        early_done = True
        known = [k for k in range(len(classes)) if classes[k] is not None]
        if not known:
            return
        if cont is None or lt.get("scratch"):
            cont = ccls(classes[known[0]](data=[None] * NATTR))
            for k in known[1:]:
                cont.append(classes[k](data=[None] * NATTR))
        run_warm({"queries": [q for q in lt.get("queries", []) if len(q) < 2 or not isinstance(q[1], int) or q[1] >= len(classes) or classes[q[1]] is not None]},
                 cont, classes, classes[known[0]], {}, getter, fuel + len(known))

    def needs_late(ids):
        return any(i not in elems and case["elems"][i][0] in late for i in ids)

    if not early_done and needs_late([0]):
        early(None)
    c = ccls(el(0))
    for k, op in enumerate(case["ops"]):
        if not early_done and (k >= lt.get("at", 0) or needs_late(op[1:])):
            early(c)
        name = op[0]
        if name == "prepend":
            c.preppend(el(op[1]))
        elif name == "append":
            c.append(el(op[1]))
        elif name == "add_before":
            c.add_before(el(op[1]), el(op[2]))
        elif name == "add_after":
            c.add_after(el(op[1]), el(op[2]))
        elif name == "remove":
            c.remove(el(op[1]))
    if not early_done:
        early(c)
    for i in range(len(classes)):
        declare(i)
    t = classes[case["type"]] if case["type"] < len(classes) else str
    kwargs = {f"a{k}": v for k, v in case["filter"]}
    if case.get("plain_attr") and "a0" in kwargs:
        # the same filter, naming the plain attribute instead of the property: any attribute may be filtered on
        kwargs = {("tag" if k == "a0" else k): v for k, v in kwargs.items()}
    remover = {"register": "remove_registers_of_type", "block": "remove_blocks_of_type", "section": "remove_sections_of_type"}[case["family"]]
    out = {}
    try:
        if warm:
            # earlier use of the same container: read-only queries while some elements still hold their earlier
            # values, then the user edits those elements (no structural operation); what follows must see the new values
            run_warm(warm, c, classes, t, kwargs, getter, fuel)
            for i in sorted(pre):
                if i in elems:
                    edit_element(elems[i], case["elems"][i][1], warm.get("inplace"))
            pre.clear()
        gen = c.of_type(t)
        lst = []
        for _ in range(fuel):
            try:
                lst.append(next(gen))
            except StopIteration:
                break
        out["of_type"] = [oid(ident, x) for x in lst]
        g = getattr(c, getter)(t, **kwargs)
        if g is None:
            out["get"] = {"shape": "none"}
        elif isinstance(g, list):
            out["get"] = {"shape": "many", "xs": [oid(ident, x) for x in g]}
        else:
            out["get"] = {"shape": "one", "x": oid(ident, g)}
        out["iter_after_get"] = [oid(ident, x) for x in capped_iter(c, fuel)]
        out["len_after_get"] = len(c) if len(out["iter_after_get"]) < fuel else fuel
        # several read-only queries on the same container in progress at once, advanced in the
        # interleaving the case gives: each of them must answer as if it ran alone
        if case.get("overlap") and len(out["iter_after_get"]) < fuel:
            out["overlap"] = run_overlap(case["overlap"], c, classes, ident, fuel, lambda: getattr(c, getter)(t, **kwargs))
        getattr(c, remover)(t, **kwargs)
        out["iter_after_remove"] = [oid(ident, x) for x in capped_iter(c, fuel)]
        out["len_after_remove"] = len(c) if len(out["iter_after_remove"]) < fuel else fuel
        # a type-filtered iteration consumed partially, the container changed directly behind the
        # element it is paused on, then the iteration resumed: it must go on over the members the
        # container has NOW (the generator reads the successor link when it is resumed)
        out["paused_ok"] = True
        if isinstance(t, type) and t is not str and len(out["iter_after_remove"]) < fuel:
            L = capped_iter(c, fuel)
            gen2 = c.of_type(t)
            first = next(gen2, None)
            if first is not None:
                i = next(k for k, x in enumerate(L) if x is first)
                if i + 1 < len(L) and (len(L) + i) % 2 == 0:
                    # `for r in c.of_type(T): if ...: c.remove(r)`: the element the iteration stands on goes
                    c.remove(first)
                    expect = [x for x in L[i + 1 :] if isinstance(x, t)]
                    what = "the element the iteration was paused on was removed"
                elif i + 1 < len(L):
                    c.remove(L[i + 1])
                    expect = [x for x in L[i + 2 :] if isinstance(x, t)]
                    what = "the element after the paused one was removed"
                else:
                    new = t(data=[None] * NATTR)
                    c.append(new)
                    expect = [new]
                    what = "an element of the type was appended while the iteration was paused on the last one"
                rest = []
                for _ in range(fuel + 1):
                    try:
                        rest.append(next(gen2))
                    except StopIteration:
                        break
                if len(rest) != len(expect) or any(a is not b for a, b in zip(rest, expect)):
                    out["paused_ok"] = False
                    out["paused_why"] = f"{what}: the resumed of_type() yielded {len(rest)} element(s), the container now has {len(expect)} member(s) of the type behind it"
    except Exception as e:
        return {"exc": type(e).__name__, "msg": str(e)[:200]}
    return out


def request(case, obs):
    if "exc" in obs or "harness_exc" in obs:
        obs2 = {"of_type": [], "get": {"shape": "none"}, "iter_after_get": [], "len_after_get": 0, "iter_after_remove": [], "len_after_remove": 0}
    else:
        obs2 = obs
    return {
        "op": "c08",
        "fuel": c07.fuel_of(case),
        "ops": case["ops"],
        "parents": case["parents"],
        "elems": case["elems"],
        "type": case["type"],
        "filter": case["filter"],
        "obs": obs2,
    }


def judge(case, obs, resp):
    if "error" in resp:
        return {"status": "error", "why": resp["error"]}
    if not resp["indomain"]:
        return {"status": "skip", "why": "history not admissible"}
    if "harness_exc" in obs:
        return {"status": "oracle", "why": f"implementation raised {obs['harness_exc']}: {obs.get('msg')}"}
    if "exc" in obs:
        return {"status": "oracle", "why": f"query raised {obs['exc']}: {obs['msg']}"}
    if not resp["model_holds"]:
        return {"status": "error", "why": "model violates Spec.C08.holds"}
    if obs.get("paused_ok") is False and resp["holds"]:
        return {"status": "oracle", "why": obs.get("paused_why", "paused iteration")}
    if not resp["holds"]:
        exp = resp["expected"]
        bad = [k for k in exp if exp[k] != obs.get(k)]
        return {"status": "oracle", "why": f"{bad} differ from the list semantics on container {resp['spec_list']}: got { {k: obs.get(k) for k in bad} } expected { {k: exp[k] for k in bad} }" + warm_text(case) + late_text(case)}
    if "overlap" in obs:
        want = overlap_expected(case, resp["expected"])
        bad = [k for k in range(len(want)) if obs["overlap"][k] != want[k]]
        if bad:
            ths = case["overlap"]["threads"]
            k = bad[0]
            return {"status": "oracle", "why": f"overlapping read-only queries {[_thread_name(case, x) for x in ths]} advanced in the order {case['overlap']['sched']}"
                    f"{' (iterators created up front)' if case['overlap'].get('eager') else ''} on container {resp['spec_list']}: query {k} = {_thread_name(case, ths[k])} "
                    f"gave {obs['overlap'][k]}, alone it gives {want[k]}" + (f" ({len(bad) - 1} more queries differ)" if len(bad) > 1 else "") + warm_text(case) + late_text(case)}
    if not resp["agree"]:
        return {"status": "corr", "why": "model/implementation disagree"}
    return {"status": "ok", "why": ""}


def _member_ids(case):
    l = [0]
    for op in case["ops"]:
        l = c07.spec_apply(l, set(), op)
    return l


def nontrivial(case):
    parents, t = case["parents"], case["type"]

    def sub(c):
        while c is not None:
            if c == t:
                return True
            c = parents[c]
        return False

    return any(sub(case["elems"][i][0]) for i in _member_ids(case))


def features(case, obs):
    f = [f"family={case['family']}", f"members={len(_member_ids(case))}", f"filter_keys={len(case['filter'])}"]
    if isinstance(obs, dict) and "get" in obs:
        f.append(f"get_shape={obs['get']['shape']}")
        if len(obs["iter_after_remove"]) < len(obs["iter_after_get"]):
            f.append("removal_removed_something")
        if obs["get"]["shape"] == "many" and obs["iter_after_get"] and obs["iter_after_get"][0] in obs["get"]["xs"]:
            f.append("first_element_among_matches")
    if case["type"] >= len(case["parents"]):
        f.append("foreign_type")
    if any(v is None for _, v in case["filter"]):
        f.append("none_filter_value")
    w = case.get("warm")
    if w:
        f.append(f"warm_queries={len(w.get('queries', []))}")
        f.append(f"edited_elements={len(w.get('pre', []))}")
        if any(q[0] == "get" for q in w.get("queries", [])) and any(v is not None for _, v in case["filter"]):
            f.append("same_lookup_before_and_after_edit")
    late = late_closure(case)
    if late:
        f.append(f"late_classes={len(late)}")
        if any(case["elems"][i][0] in late for i in _member_ids(case)):
            f.append("member_of_late_class")
        t = case["type"]
        if t < len(case["parents"]) and t not in late and any(len(q) > 1 and q[1] == t for q in case["late"].get("queries", [])):
            f.append("requested_type_queried_before_late_declaration")
    ov = case.get("overlap")
    if ov:
        f.append(f"overlap_queries={len(ov['threads'])}")
        f.append("overlap_kinds=" + "+".join(sorted({th[0] for th in ov["threads"]})))
        if isinstance(obs, dict) and "overlap" in obs and len(set(ov["sched"])) > 1:
            f.append("overlap_interleaved")
    return f


def signature(rec):
    return rec["verdict"]["why"][:40]


def matches_known(trigger, case):
    return False


def snippet(case):
    return f"""import sys; sys.path.insert(0, '/verif/harness'); sys.path.insert(0, '/repo')
from props import c08
case = {json.dumps(case)}
print(c08.run_impl(case))
"""


# ------------------------------------------------------------------ generators
PARENT_TABLES = [[None, 0, None], [None, None], [None, 0, 1, None], [None, 0, 0]]


def overlap_pattern(k, n, t):
    """fixed interleavings of read-only queries for the exhaustive part (n members, requested type t)"""
    t2 = (t + 1) % 3
    k %= 8
    if k == 0:
        return None
    if k == 1:  # for x in of_type(t): getter(...)
        return {"threads": [["of_type", t], ["get"], ["get"]], "sched": [0, 1, 0, 2], "eager": False}
    if k == 2:  # zip(of_type(t), of_type(t2))
        return {"threads": [["of_type", t], ["of_type", t2]], "sched": [0, 1] * (n + 1), "eager": False}
    if k == 3:  # a plain loop, a typed loop and len() in turn
        return {"threads": [["iter"], ["of_type", t], ["len"]], "sched": [0, 1, 2, 0, 1], "eager": True}
    if k == 4:  # for x in of_type(t): for y in container: ...
        sched = []
        for j in range(min(n, 3)):
            sched += [0] + [j + 1] * (n + 1)
        return {"threads": [["of_type", t]] + [["iter"]] * min(n, 3), "sched": sched, "eager": False}
    if k == 5:  # the getter while a plain iteration is paused
        return {"threads": [["iter"], ["get"]], "sched": [0, 1], "eager": False}
    if k == 6:  # two plain iterations created up front
        return {"threads": [["iter"], ["iter"]], "sched": [0, 1, 1, 0], "eager": True}
    # for x in container: of_type(t2) in full
    return {"threads": [["iter"], ["of_type", t2], ["of_type", t]], "sched": [0] + [1] * (n + 1) + [0] + [2] * (n + 1), "eager": False}


def random_overlap(rng: random.Random, nclasses, t, nmembers):
    nth = rng.randrange(2, 6)
    threads = []
    for _ in range(nth):
        r = rng.random()
        if r < 0.3:
            threads.append(["iter"])
        elif r < 0.5:
            threads.append(["of_type", t])
        elif r < 0.7:
            threads.append(["of_type", rng.randrange(nclasses + 1)])
        elif r < 0.9:
            threads.append(["get"])
        else:
            threads.append(["len"])
    if rng.random() < 0.5:
        # nested loops: one step of an outer query, then an inner one run for a while
        sched = []
        outer = rng.randrange(nth)
        for k in range(nth):
            if k != outer:
                sched += [outer] + [k] * rng.randrange(1, nmembers + 3)
    else:
        sched = [rng.randrange(nth) for _ in range(rng.randrange(1, 2 * nmembers + 4))]
    return {"threads": threads, "sched": sched, "eager": rng.random() < 0.3}


def warm_pattern(count, n, elems, t, flt):
    """fixed warm-up + edit for a third of the exhaustive part: one element held the other value of a0 (or of a1) before"""
    if count % 3 != 1:
        return None
    j = (count // 3) % n
    a = list(elems[j][1])
    which = (count // 9) % 4
    if which == 3:
        a[1] = 1 - a[1]
    else:
        a[0] = 1 - a[0]
    queries = [[["get"]], [["of_type", t], ["get"], ["len"]], [["get"], ["get_flt", [[0, 1]]], ["get"]], [["iter"], ["get"]]][(count // 3) % 4]
    return {"pre": [[j, a]], "queries": queries, "inplace": (count // 3) % 2 == 1}


def random_warm(rng: random.Random, case, nvals):
    members = _member_ids(case)
    elems, flt = case["elems"], case["filter"]
    fkeys = [k for k, v in flt]
    fval = dict((k, v) for k, v in flt)
    pre = {}
    for _ in range(rng.randrange(1, 4)):
        i = rng.choice(members) if rng.random() < 0.85 else rng.randrange(len(elems))
        a = list(pre.get(i, elems[i][1]))
        for _ in range(rng.randrange(1, 3)):
            k = rng.choice(fkeys) if fkeys and rng.random() < 0.7 else rng.randrange(NATTR)
            if fval.get(k) is not None and rng.random() < 0.5:
                v = fval[k] if a[k] != fval[k] else rng.choice([None] + [x for x in range(nvals + 1) if x != fval[k]])
            else:
                v = rng.choice([None] + list(range(nvals + 1)))
            a[k] = v
        if a != elems[i][1]:
            pre[i] = a
    if not pre:
        return None
    queries = []
    for _ in range(rng.randrange(1, 5)):
        r = rng.random()
        if r < 0.45:
            queries.append(["get"])
        elif r < 0.6:
            queries.append(["get_flt", [[k, rng.choice([None] + list(range(nvals + 1)))] for k in rng.sample(range(NATTR), k=rng.randrange(0, NATTR + 1))]])
        elif r < 0.7:
            queries.append(["get_type", rng.randrange(len(case["parents"]) + 1)])
        elif r < 0.82:
            queries.append(["of_type", rng.randrange(len(case["parents"]) + 1)])
        elif r < 0.92:
            queries.append(["iter"])
        else:
            queries.append(["len"])
    return {"pre": [[i, pre[i]] for i in sorted(pre)], "queries": queries, "inplace": rng.random() < 0.5}


def _case_rng(case, salt):
    """a random stream of its own for a new dimension, derived from the case (the streams of the other dimensions stay as they are)"""
    return random.Random(zlib.crc32((salt + json.dumps(case, sort_keys=True)).encode()))


def late_pattern(count, n, t):
    """fixed late declarations for a quarter of the exhaustive part (table [None, 0, None]: K1 derives from K0)"""
    if count % 4 != 2:
        return None
    j = count // 4
    late = [[1], [1], [2], [0], [1, 2]][j % 5]
    known = [k for k in range(3) if k not in late and not (k == 1 and 0 in late)]
    qt = t if t in known else known[(j // 5) % len(known)]
    queries = [[["of_type", qt]], [["get_type", qt]], [["of_type", qt], ["get_type", known[0]], ["len"]], [["iter"], ["get_type", qt]]][(j // 5) % 4]
    return {"classes": late, "queries": queries, "at": (j // 20) % (n + 1), "scratch": (j // 3) % 3 == 0}


def random_late(rng: random.Random, case):
    parents = case["parents"]
    n = len(parents)
    late = set()
    # mostly classes that derive from another one (a derived model declared later), sometimes roots
    derived = [i for i in range(n) if parents[i] is not None]
    for _ in range(rng.randrange(1, 3)):
        late.add(rng.choice(derived) if derived and rng.random() < 0.7 else rng.randrange(n))
    for i in range(n):
        if parents[i] is not None and parents[i] in late:
            late.add(i)
    known = [i for i in range(n) if i not in late]
    if not known:
        return None
    t = case["type"]
    queries = []
    for _ in range(rng.randrange(1, 5)):
        r = rng.random()
        k = t if t in known and rng.random() < 0.6 else rng.choice(known + [n])
        if r < 0.45:
            queries.append(["of_type", k])
        elif r < 0.85:
            queries.append(["get_type", k])
        elif r < 0.93:
            queries.append(["iter"])
        else:
            queries.append(["len"])
    return {"classes": sorted(late), "queries": queries, "at": rng.randrange(len(case["ops"]) + 1), "scratch": rng.random() < 0.3}


def exhaustive_cases(family, maxn):
    parents = [None, 0, None]  # K1 is a subclass of K0, K2 unrelated
    count = 0
    for n in range(1, maxn + 1):
        ops = [["append", i] for i in range(1, n)]
        for classes in itertools.product(range(3), repeat=n):
            for vals in itertools.product(range(2), repeat=n):
                elems = [[classes[i], [vals[i], 0, None]] for i in range(n)]
                for t in range(4):  # 3 = foreign
                    for flt in ([], [[0, 0]], [[0, 1]], [[0, None]], [[0, 0], [1, 0]], [[2, 5]]):
                        case = {"family": family, "parents": parents, "elems": elems, "ops": ops, "type": t, "filter": flt}
                        ov = overlap_pattern(count, n, t)
                        wm = warm_pattern(count, n, elems, t, flt)
                        lt = late_pattern(count, n, t)
                        count += 1
                        if lt:
                            case["late"] = lt
                        if ov:
                            case["overlap"] = ov
                        if wm:
                            case["warm"] = wm
                        yield case


def random_case(rng: random.Random, family):
    parents = rng.choice(PARENT_TABLES)
    h = c07.random_history(rng, rng.randrange(0, 14), family)
    nid = len(h["vals"])
    nvals = rng.choice([1, 2, 3])
    elems = []
    for i in range(nid):
        attrs = [rng.choice([None] + list(range(nvals))) if rng.random() < 0.9 else None for _ in range(NATTR)]
        elems.append([rng.randrange(len(parents)), attrs])
    # value-equal duplicates of the first element
    if nid > 2 and rng.random() < 0.5:
        for i in rng.sample(range(1, nid), k=min(nid - 1, rng.randrange(1, 3))):
            elems[i] = [elems[0][0], list(elems[0][1])]
    t = rng.choice(list(range(len(parents))) + [len(parents)])
    flt = []
    for k in rng.sample(range(NATTR), k=rng.randrange(0, NATTR + 1)):
        r = rng.random()
        if r < 0.2:
            v = None
        elif r < 0.7 and elems[0][1][k] is not None:
            v = elems[rng.randrange(nid)][1][k]
        else:
            v = rng.randrange(nvals + 1)
        flt.append([k, v])
    case = {"family": family, "parents": parents, "elems": elems, "ops": h["ops"], "type": t, "filter": flt, "plain_attr": rng.random() < 0.3}
    if rng.random() < 0.6:
        case["overlap"] = random_overlap(rng, len(parents), t, len(_member_ids(case)))
    if rng.random() < 0.5:
        wm = random_warm(rng, case, nvals)
        if wm:
            case["warm"] = wm
    rng2 = _case_rng(case, "late")
    if rng2.random() < 0.5:
        lt = random_late(rng2, case)
        if lt:
            case["late"] = lt
    return case


def corpus_cases():
    d = Path(__file__).resolve().parent.parent.parent / "corpus" / PROP
    out = []
    if d.exists():
        for f in sorted(d.glob("*.json")):
            j = json.loads(f.read_text())
            out.append(j["case"] if "case" in j else j)
    return out


def chunks(tier, seed):
    ch = [{"kind": "corpus"}]
    if tier == "quick":
        maxn, nrand = 3, 3000
    elif tier == "thorough":
        maxn, nrand = 4, 240000
    else:
        maxn, nrand = 3, 12000
    for fam in c07.FAMILIES:
        for part in range(4):
            ch.append({"kind": "exh", "family": fam, "maxn": maxn if fam == "register" or tier != "quick" else 3, "part": part, "of": 4})
    per = max(1, nrand // 12)
    for i in range(12):
        ch.append({"kind": "random", "family": c07.FAMILIES[i % 3], "seed": seed * 1000 + i, "n": per})
    return ch


def cases_of(chunk):
    try:
        # load the library here, outside the per-case time limit: on a busy machine the first import alone
        # can take longer than the limit and would be reported as a non-terminating operation
        _build("register", [None])
    except ImportError:
        pass
    k = chunk["kind"]
    if k == "corpus":
        yield from corpus_cases()
    elif k == "exh":
        for i, c in enumerate(exhaustive_cases(chunk["family"], chunk["maxn"])):
            if i % chunk["of"] == chunk["part"]:
                yield c
    elif k == "random":
        rng = random.Random(chunk["seed"])
        for _ in range(chunk["n"]):
            yield random_case(rng, chunk["family"])


def shrinks(case):
    ops = case["ops"]
    ov = case.get("overlap")
    # coarse steps first (a batch of candidates is evaluated together, the first that still fails is kept)
    if len(ops) > 3:
        for keep in (ops[:1], ops[: len(ops) // 2], ops[len(ops) // 2 :]):
            yield {**case, "ops": keep}
    if ov and len(ov["sched"]) > 3:
        sc = ov["sched"]
        for keep in (sc[:2], sc[: len(sc) // 2], sc[len(sc) // 2 :]):
            yield {**case, "overlap": {**ov, "sched": keep}}
    for i in range(len(ops)):
        yield {**case, "ops": ops[:i] + ops[i + 1 :]}
    for i in range(len(case["filter"])):
        yield {**case, "filter": case["filter"][:i] + case["filter"][i + 1 :]}
    if case["parents"] != [None, 0, None] and all(e[0] < 3 for e in case["elems"]) and case["type"] <= 3:
        yield {**case, "parents": [None, 0, None]}
    lt = case.get("late")
    if lt:
        yield {k: v for k, v in case.items() if k != "late"}
        for i in range(len(lt.get("classes", []))):
            if len(lt["classes"]) > 1:
                yield {**case, "late": {**lt, "classes": lt["classes"][:i] + lt["classes"][i + 1 :]}}
        for i in range(len(lt.get("queries", []))):
            if len(lt["queries"]) > 1:
                yield {**case, "late": {**lt, "queries": lt["queries"][:i] + lt["queries"][i + 1 :]}}
        if lt.get("scratch"):
            yield {**case, "late": {**lt, "scratch": False}}
    wm = case.get("warm")
    if wm:
        yield {k: v for k, v in case.items() if k != "warm"}
        for i in range(len(wm["pre"])):
            if len(wm["pre"]) > 1:
                yield {**case, "warm": {**wm, "pre": wm["pre"][:i] + wm["pre"][i + 1 :]}}
        for i in range(len(wm["queries"])):
            if len(wm["queries"]) > 1:
                yield {**case, "warm": {**wm, "queries": wm["queries"][:i] + wm["queries"][i + 1 :]}}
        if wm.get("inplace"):
            yield {**case, "warm": {**wm, "inplace": False}}
    if ov:
        yield {k: v for k, v in case.items() if k != "overlap"}
        sched, ths = ov["sched"], ov["threads"]
        for i in range(len(ths)):
            if len(ths) > 1:
                yield {**case, "overlap": {**ov, "threads": ths[:i] + ths[i + 1 :], "sched": [k - (k > i) for k in sched if k != i]}}
        for i in range(len(sched)):
            yield {**case, "overlap": {**ov, "sched": sched[:i] + sched[i + 1 :]}}
        if ov.get("eager"):
            yield {**case, "overlap": {**ov, "eager": False}}
