"""C16 — path and in-memory I/O are equivalent and honour the declared encoding."""
from __future__ import annotations

import json
import os
import random
import shutil
import tempfile
from io import BytesIO, StringIO
from pathlib import Path

import codec
import filesupport as fsup

PROP = "C16"
LEAN_MODULES = ["Props.C16"]
RULE = (
    "case = (file family register|block|section, storage text|binary, encoding in utf-8 / latin-1 / cp1252 / utf-16, "
    "content with non-ASCII text and '\\n' line ends encodable in that encoding). On a real scratch directory "
    "(outside /repo and /verif, removed afterwards): the encoded content is put on disk; File.read(path) is "
    "compared with File.read(content) (elements and ==); the file read is written to a path (fresh, or already holding a longer earlier output), to a caller-owned "
    "buffer and the bytes on disk, decoded with the class's declared encoding, must be exactly the in-memory output "
    "(binary storage: identical bytes); the disk round trip must equal the memory round trip. What the destination "
    "path holds BEFORE the write is varied over the cases (dst_prior: nothing, or an earlier save of the same deck "
    "- as a second object of the class writes it - left there identical, with CRLF / CR / mixed line ends, with a "
    "stale tail, cut short, empty, in another encoding, behind a BOM, with blanks before the line ends, without its "
    "last line end, with the letter case swapped, binary: one byte changed): the bytes on disk after write(path) "
    "never depend on it. The file class under test is, in half of the cases, DERIVED from another file class of the "
    "same family that declares the same tables and storage but another ENCODING (derive: the derived class re-declares "
    "only ENCODING), and before the derived class's first use a relative is used in the same process (warm: the parent "
    "reads the content / is instantiated empty / writes to a buffer, the bare framework base class is instantiated, a "
    "sibling derived with a third encoding reads, or nothing): every check is made on the derived class with ITS OWN "
    "declared encoding, exactly as for a directly declared class. Three text contents in ten of the single-byte "
    "encodings have their non-ASCII characters only in groups that are also well-formed UTF-8 sequences (a utf-8 text "
    "saved through the single-byte encoding). Four cases in ten have a HISTORY of path I/O in the same process (history: "
    "one to three earlier operations by the class under test, by a second class declared the same way, or by a bare file "
    "class of another family declaring the same encoding - each reads another file from a path: the same deck, the deck in "
    "another encoding, the deck with bytes that are not valid in the declared encoding, cut short, empty; or saves the "
    "deck to another path; a read that raises is accepted, nothing of it is observed), placed before the first read or "
    "between the write and the round-trip read: every check must come out as the model computes it WITHOUT the history. "
    "Such a case runs in a forked child process of its own, so that whatever its history leaves in the process reaches "
    "only the case that declares it and the replay shows it alone. The named Boolean "
    "checks are evaluated by the driver. non-trivial = the content has a non-ASCII character or binary storage; "
    "distinct by full case."
)
ASSUMPTIONS = [
    "contents contain no '\\r' (open() in text mode translates newlines on reading; the property's domain is '\\n' line ends)",
    "contents are encodable in the declared encoding",
    "codecs, open() and the file system are parameters of the Lean model (Props.C16 holds for every codec with dec(enc s) = s); their real behaviour is what this check observes",
]
TRUSTED = ["Python codecs, open(), the OS file system"]
NOT_THEOREMS = ['codec law dec(enc s) = s, open() modes, newline handling, the path/content decision of os.path.isfile: observed on a scratch directory']
EXHAUSTIVE = {"quick": False, "thorough": False}
ENCODINGS = ["utf-8", "latin-1", "cp1252", "utf-16"]


def _declare(base, attrs, case):
    """the file class under test: declared directly on the framework base, or (case['derive']) derived from a
    parent file class that carries the tables / storage and ANOTHER declared encoding; the derived class re-declares
    ENCODING only. Returns (class under test, parent or None, sibling or None)."""
    dv = case.get("derive")
    if not dv:
        return type(attrs.pop("_name"), (base,), dict(attrs, ENCODING=case["encoding"], __slots__=[])), None, None
    name = attrs.pop("_name")
    parent = type(name + "Legacy", (base,), dict(attrs, ENCODING=dv["parent_encoding"], __slots__=[]))
    sibling = None
    if dv.get("warm") == "sibling_read":
        sibling = type(name + "Other", (parent,), {"ENCODING": dv.get("sibling_encoding", "utf-8"), "__slots__": []})
    return type(name, (parent,), {"ENCODING": case["encoding"], "__slots__": []}), parent, sibling


def mk_file_class(case, relatives=False):
    fam, binary = case["family"], case["binary"]
    st = "BINARY" if binary else "TEXT"
    if fam == "register":
        regs = case["regs"]
        classes = fsup.mk_register_classes(regs)
        from cfinterface.files.registerfile import RegisterFile as base

        attrs = {"_name": "RF", "REGISTERS": classes, "STORAGE": st}
    elif fam == "block":
        classes = fsup.mk_block_classes(case["blocks"], binary)
        from cfinterface.files.blockfile import BlockFile as base

        attrs = {"_name": "BF", "BLOCKS": classes, "STORAGE": st}
    else:
        classes = fsup.mk_section_classes(case["secs"])
        from cfinterface.files.sectionfile import SectionFile as base

        attrs = {"_name": "SF", "SECTIONS": classes, "STORAGE": st}
    F, parent, sibling = _declare(base, attrs, case)
    if relatives:
        return F, classes, {"base": base, "parent": parent, "sibling": sibling}
    return F, classes


def warm_up(case, rel, content, extra, kw):
    """a relative of the class under test is used first, in the same process (in-memory I/O only: nothing of it
    is observed, and the property says nothing of it stays behind for the derived class)"""
    dv = case.get("derive")
    if not dv:
        return
    warm, binary = dv.get("warm"), case["binary"]
    if warm == "parent_read":
        rel["parent"].read(content, *extra, **kw)
    elif warm == "parent_new":
        rel["parent"]()
    elif warm == "parent_write":
        rel["parent"].read(content, *extra, **kw).write(BytesIO() if binary else StringIO())
    elif warm == "base_new":
        rel["base"]()
    elif warm == "sibling_read":
        rel["sibling"].read(content, *extra, **kw)


def elems_of(case, f, classes):
    cap = 10000
    if case["family"] == "register":
        return [fsup.enc_relem(e, classes) for e in fsup.capped(f.data, cap)]
    if case["family"] == "block":
        return [fsup.enc_belem(e, classes, case["binary"]) for e in fsup.capped(f.data, cap)]
    return [fsup.enc_selem(e, classes) for e in fsup.capped(f.data, cap)]


# what the destination path may hold before write(path): derived from an earlier save `out` of the same deck
PRIORS_TEXT = ["same", "crlf", "cr", "mixed_eol", "longer", "prefix", "empty", "other_encoding", "bom", "blank_before_eol", "no_final_eol", "swapcase"]
PRIORS_BIN = ["same", "longer", "prefix", "empty", "byte_changed"]


def prior_bytes(kind, out, enc, binary):
    if binary:
        if kind == "longer":
            return out + b"\x00stale tail of an earlier, longer save" * 3
        if kind == "prefix":
            return out[: len(out) // 2]
        if kind == "empty":
            return b""
        if kind == "byte_changed" and out:
            k = len(out) // 2
            return out[:k] + bytes([out[k] ^ 0x20]) + out[k + 1 :]
        return out
    t = out
    if kind == "crlf":
        t = out.replace("\n", "\r\n")
    elif kind == "cr":
        t = out.replace("\n", "\r")
    elif kind == "mixed_eol":
        parts = out.split("\n")
        t = "".join(p + ("" if i == len(parts) - 1 else ("\r\n", "\n", "\r")[i % 3]) for i, p in enumerate(parts))
    elif kind == "longer":
        t = out + "\n# stale tail of an earlier, longer save\n" * 3
    elif kind == "prefix":
        t = out[: len(out) // 2]
    elif kind == "empty":
        t = ""
    elif kind == "blank_before_eol":
        t = out.replace("\n", "  \n")
    elif kind == "no_final_eol":
        t = out[:-1] if out.endswith("\n") else out + "\n"
    elif kind == "swapcase":
        t = out.swapcase()
    elif kind == "other_encoding":
        return out.encode("utf-16" if enc != "utf-16" else "utf-8", errors="replace")
    b = t.encode(enc, errors="replace")
    if kind == "bom":
        b = {"utf-8": b"\xef\xbb\xbf", "utf-16": b"\xff\xfe"}.get(enc, b"\xef\xbb\xbf") + b
    return b


# a history of path I/O in the same process, before the observed operations (nothing of it is observed)
HIST_TEXT = ["foreign_bytes", "foreign_bytes", "foreign_bytes", "other_encoding", "other_encoding", "other_encoding", "prefix", "same", "empty", "save"]
HIST_BIN = ["same", "prefix", "empty", "save"]
HIST_WORDS = {"foreign_bytes": "the deck with bytes that are not valid in the declared encoding", "other_encoding": "the deck encoded in", "prefix": "the deck cut short", "same": "the same deck", "empty": "nothing"}
FOREIGN = {"utf-8": b"\xe9\xe3o \xfa\n", "utf-16": b"\x00\xd8\n", "cp1252": b"\x81 \x8d\x9d\n", "latin-1": b"\xff\xfe\xe9\n"}


def history_bytes(item, content, raw, enc, binary):
    kind = item["kind"]
    if kind == "empty":
        return b""
    if kind == "prefix":
        return raw[: ((2 * len(raw)) // 3) | 1]
    if binary or kind == "same":
        return raw
    if kind == "other_encoding":
        return content.encode(item.get("alt", "latin-1"), errors="replace")
    # a deck of a legacy tool: bytes that are not valid in the declared encoding among the lines
    k = len(raw) // 2
    return raw[:k] + FOREIGN.get(enc, b"\xff\n") + raw[k:]


def run_history(case, F, d, content, raw, extra, kw, tag):
    """earlier path I/O in the same process: other files read from their paths (a file that is not in the declared
    encoding either raises or yields something: both accepted), or the deck saved to another path"""
    enc, binary = case["encoding"], case["binary"]
    for i, item in enumerate(case.get("history") or []):
        who = item.get("who", "self")
        if who == "twin" or (who == "bare" and binary):
            G = mk_file_class(case)[0]
        elif who == "bare":
            if case["family"] == "section":
                from cfinterface.files.registerfile import RegisterFile as b2

                tab = {"REGISTERS": []}
            else:
                from cfinterface.files.sectionfile import SectionFile as b2

                tab = {"SECTIONS": []}
            G = type("Bare", (b2,), dict(tab, ENCODING=enc, STORAGE="TEXT", __slots__=[]))
        else:
            G = F
        p = os.path.join(d, f"hist_{tag}_{i}.dat")
        try:
            if item["kind"] == "save":
                G.read(content, *extra, **kw).write(p)
            else:
                with open(p, "wb") as fh:
                    fh.write(history_bytes(item, content, raw, enc, binary))
                G.read(p, *extra, **kw)
        except Exception:
            pass


def _forked(fn):
    """runs fn() in a forked child of this process and returns its (JSON) result: what the case does to the state
    of the process stays with the case"""
    import signal

    r, w = os.pipe()
    pid = os.fork()
    if pid == 0:
        data = b""
        try:
            os.close(r)
            try:
                import core

                if hasattr(signal, "setitimer"):
                    signal.setitimer(signal.ITIMER_PROF, core.CASE_TIMEOUT_S)
                out = fn()
            except BaseException as e:  # the watchdog's CaseTimeout included
                out = {"harness_exc": type(e).__name__, "msg": (str(e) or "the operation on the real code did not finish within its CPU time budget")[:300]}
            data = json.dumps(out).encode()
            while data:
                n = os.write(w, data)
                data = data[n:]
        finally:
            os._exit(0)
    os.close(w)
    buf, eof = [], False
    try:
        while True:
            b = os.read(r, 65536)
            if not b:
                eof = True
                break
            buf.append(b)
    finally:
        os.close(r)
        try:
            if not eof:  # a watchdog alarm in this process: the child is stopped
                os.kill(pid, 9)
            os.waitpid(pid, 0)
        except OSError:
            pass
    if not buf:
        return {"harness_exc": "ChildProcessError", "msg": "the forked process of the case ended without a result"}
    return json.loads(b"".join(buf))


def run_impl(case):
    if case.get("history"):
        return _forked(lambda: _run_impl(case))
    return _run_impl(case)


def _run_impl(case):
    d0 = d = tempfile.mkdtemp(prefix="cfi-c16-")
    try:
        if case.get("long_path"):
            # a legal path longer than 255 characters in total (every component well below NAME_MAX):
            # decks in deeply nested study directories
            for i in range(6):
                d = os.path.join(d, f"estudo_{i:02d}_caso_base_revisao_semanal_deck_de_entrada")
            os.makedirs(d)
        F, classes, rel = mk_file_class(case, relatives=True)
        enc, binary = case["encoding"], case["binary"]
        content = bytes(case["x"]) if binary else codec.dec_str(case["x"])
        raw = content if binary else content.encode(enc)
        src = os.path.join(d, "in.dat")
        with open(src, "wb") as fh:
            fh.write(raw)
        # the peek window of a binary register file: positional or keyword argument (a keyword travels
        # through **kwargs all the way down to the elements)
        extra, kw = (), {}
        if case["family"] == "register" and binary:
            if case.get("linesize_kw"):
                kw = {"linesize": case["linesize"]}
            else:
                extra = (case["linesize"],)
        warm_up(case, rel, content, extra, kw)
        if case.get("history_at", "start") == "start":
            run_history(case, F, d, content, raw, extra, kw, "a")
        f_path = F.read(src, *extra, **kw)
        f_mem = F.read(content, *extra, **kw)
        checks = {}
        e_path, e_mem = elems_of(case, f_path, classes), elems_of(case, f_mem, classes)
        # NaN payloads compare unequal to themselves (known finding K1 of C15, IEEE semantics):
        # for such contents the == operator is not used, the element-wise comparison (canonical NaN) is
        has_nan = json.dumps({"f": codec.NAN_BITS}) in json.dumps(e_mem)
        checks["read_path_equals_read_content"] = has_nan or (bool(f_path == f_mem) and bool(f_mem == f_path))
        checks["read_path_same_elements"] = e_path == e_mem
        # writing: path vs caller buffer
        dst = os.path.join(d, "out.dat")
        prior = case.get("dst_prior")
        if prior:
            # read - edit - save again: the destination already holds an earlier save of the same deck, as
            # this or another tool / platform left it (the earlier save comes from a second object)
            pbuf = BytesIO() if binary else StringIO()
            F.read(content, *extra, **kw).write(pbuf)
            with open(dst, "wb") as fh:
                fh.write(prior_bytes(prior, pbuf.getvalue(), enc, binary))
        elif case.get("dst_exists"):
            # read - edit - save again: the destination already holds a longer earlier output
            with open(dst, "wb") as fh:
                fh.write(raw + b"\n# stale tail of an earlier, longer save\n" * 3)
        f_mem.write(dst)
        buf = BytesIO() if binary else StringIO()
        f_mem.write(buf)
        mem_out = buf.getvalue()
        with open(dst, "rb") as fh:
            disk = fh.read()
        if binary:
            checks["bytes_on_disk_equal_memory_output"] = disk == mem_out
        else:
            checks["disk_decoded_with_declared_encoding_equals_memory_output"] = disk.decode(enc) == mem_out
        checks["caller_buffer_left_open"] = not buf.closed
        # a caller-owned file-like object that is not an io.IOBase instance (the wrapper returned by
        # tempfile.NamedTemporaryFile): it is filled through .write() like any other buffer
        import tempfile as _tf

        with _tf.NamedTemporaryFile(mode="w+b" if binary else "w+", dir=d, delete=False, **({} if binary else {"encoding": enc, "newline": ""})) as tmp:
            f_mem.write(tmp)
            tmp.flush()
            tmp.seek(0)
            got = tmp.read()
            checks["caller_tempfile_wrapper_left_open"] = not tmp.closed
        checks["caller_tempfile_wrapper_receives_memory_output"] = got == mem_out
        # round trip through disk = round trip through memory
        if case.get("history_at", "start") == "before_roundtrip":
            run_history(case, F, d, content, raw, extra, kw, "b")
        f_disk_rt = F.read(dst, *extra, **kw)
        f_mem_rt = F.read(mem_out, *extra, **kw)
        e_disk_rt, e_mem_rt = elems_of(case, f_disk_rt, classes), elems_of(case, f_mem_rt, classes)
        rt_nan = json.dumps({"f": codec.NAN_BITS}) in json.dumps(e_mem_rt)  # the re-read payload itself may decode to NaN (K1)
        checks["disk_roundtrip_equals_memory_roundtrip"] = (rt_nan or bool(f_disk_rt == f_mem_rt)) and e_disk_rt == e_mem_rt
        return {"checks": checks}
    except Exception as e:
        return codec.enc_exc(e)
    finally:
        shutil.rmtree(d0, ignore_errors=True)


def request(case, obs):
    if "harness_exc" in obs:
        obs = {"exc": "harness"}
    return {"op": "all", "obs": obs}


def judge(case, obs, resp):
    if "error" in resp:
        return {"status": "error", "why": resp["error"]}
    if "harness_exc" in obs:
        return {"status": "error", "why": f"harness: {obs['harness_exc']} {obs.get('msg')}"}
    dv = case.get("derive")
    how = f" (file class derived from a parent declaring {dv['parent_encoding']}, used first: {dv.get('warm')})" if dv else ""
    hs = case.get("history")
    if hs:
        how += " (earlier in the same process, " + ("before the first read" if case.get("history_at", "start") == "start" else "between the write and the round-trip read") + ": " + "; ".join(
            (f"{h.get('who', 'self')} class saves the deck to another path" if h["kind"] == "save" else f"{h.get('who', 'self')} class reads from a path a file holding " + HIST_WORDS.get(h["kind"], h["kind"]) + (f" {h['alt']}" if h["kind"] == "other_encoding" else "")) for h in hs
        ) + ")"
    if "exc" in obs:
        return {"status": "oracle", "why": f"{case['family']} {'binary' if case['binary'] else 'text'} {case['encoding']}{how}: path/in-memory I/O raised {obs['exc']}: {obs.get('msg')}"}
    if not resp["holds"]:
        prior = case.get("dst_prior") or ("longer" if case.get("dst_exists") else None)
        held = f", destination path held before the write: {prior}" if prior else ""
        return {"status": "oracle", "why": f"{case['family']} {'binary' if case['binary'] else 'text'} {case['encoding']}{how}{held}: {resp.get('failed')} false"}
    return {"status": "ok", "why": ""}


def nontrivial(case):
    return case["binary"] or any(c > 127 for c in case["x"])


def features(case, obs):
    return [f"family={case['family']}", "binary" if case["binary"] else "text", f"encoding={case['encoding']}", "non_ascii" if any(c > 127 for c in case["x"]) else "ascii", f"dst_prior={case.get('dst_prior') or ('longer' if case.get('dst_exists') else 'none')}", f"derive={(case.get('derive') or {}).get('warm', 'direct')}", f"history={len(case.get('history') or [])}"] + [f"history_kind={h['kind']}" for h in (case.get("history") or [])]


def signature(rec):
    return rec["case"]["family"] + rec["case"]["encoding"] + rec["verdict"]["why"][-30:]


def matches_known(trigger, case):
    return False


def snippet(case):
    return f"""import sys; sys.path.insert(0, '/verif/harness'); sys.path.insert(0, '/repo')
from props import c16
case = {json.dumps(case)}
print(c16.run_impl(case))
"""


# utf-8 / utf-16: also characters that are NOT in Unicode normal form C — combining marks after a base letter
# (a + U+0303, e + U+0301, U+0323 U+0302 stacked) and canonical singletons (ANGSTROM SIGN, OHM SIGN): content is
# a sequence of code points, nothing composes or decomposes it on the way
CHARS = {"utf-8": "éñßÇλ日本€✓\u0303\u0301\u0323\u0302\u212b\u2126", "utf-16": "éñßÇλ日本€✓\u0303\u0301\u0323\u0302\u212b\u2126", "latin-1": "éñßÇ¿", "cp1252": "éñßÇ€œ"}


WARMS = ["parent_read", "parent_read", "parent_new", "parent_write", "base_new", "sibling_read", "none"]


def _moji(enc):
    out = []
    for ch in "éñüãçÁ°ß€ôÀí":
        try:
            out.append(ch.encode("utf-8").decode(enc))
        except UnicodeDecodeError:
            pass
    return out


MOJI = {e: _moji(e) for e in ("latin-1", "cp1252")}


def random_case(rng):
    case = _random_case0(rng)
    # four cases in ten have a history of path I/O in the same process; drawn from a stream of its own, derived
    # from the case, so that the cases themselves are what they were
    import zlib

    hrng = random.Random(zlib.crc32(json.dumps(case, sort_keys=True).encode()))
    if hrng.random() < 0.4:
        kinds = HIST_BIN if case["binary"] else HIST_TEXT
        hist = []
        for _ in range(hrng.choice([1, 1, 2, 3])):
            item = {"who": hrng.choice(["self", "self", "twin", "bare"]), "kind": hrng.choice(kinds)}
            if item["kind"] == "other_encoding":
                item["alt"] = hrng.choice([e for e in ENCODINGS if e != case["encoding"]])
            hist.append(item)
        case["history"] = hist
        case["history_at"] = hrng.choice(["start", "start", "before_roundtrip"])
    return case


def _random_case0(rng):
    fam = rng.choice(["register", "block", "section"])
    binary = fam != "section" and rng.random() < 0.3
    enc = rng.choice(ENCODINGS)
    # three writes in four go to a path that already holds something: an earlier save of the same deck in one of
    # the states of PRIORS_TEXT / PRIORS_BIN
    prior = rng.choice(PRIORS_BIN if binary else PRIORS_TEXT) if rng.random() < 0.75 else None
    case = {"family": fam, "binary": binary, "encoding": enc, "dst_prior": prior, "long_path": rng.random() < 0.2}
    # half of the file classes are derived from a parent file class declaring another encoding (a legacy format and
    # its newer flavour); a relative is used before the derived class
    drng = random.Random(rng.getrandbits(32))
    if drng.random() < 0.5:
        others = [e for e in ENCODINGS if e != enc]
        case["derive"] = {"parent_encoding": drng.choice(others), "warm": drng.choice(WARMS)}
        if case["derive"]["warm"] == "sibling_read":
            case["derive"]["sibling_encoding"] = drng.choice(others)
    if binary:
        if fam == "register":
            from props import c18

            c = None
            while c is None or not (c["family"] == "register" and c["binary"]):
                c = c18.random_case(rng)
            case.update({"regs": c["regs"], "linesize": c["linesize"], "x": [b for b in c["x"] if b < 128], "linesize_kw": rng.random() < 0.5})
            if rng.random() < 0.12:
                # a file larger than any I/O buffer (the records are not buffer-aligned)
                case["x"] = (case["x"] * (9000 // max(1, len(case["x"])) + 2))[:12000] if case["x"] else case["x"]
        else:
            from props import c12

            c = c12.random_bin_case(rng)
            case.update({"blocks": c["blocks"], "x": c["x"]})
        return case
    pool = CHARS[enc] + "abcXYZ 0123#-"
    if enc in MOJI and drng.random() < 0.3:
        # a single-byte encoding whose non-ASCII characters come only in groups that are ALSO well-formed UTF-8
        # sequences (what a utf-8 text looks like when it was saved through the single-byte encoding): the
        # declared encoding decides how the bytes of a path are decoded, not what they happen to look like
        pool = MOJI[enc] + list("abcXYZ 0123#-")
    if fam == "register":
        regs = [
            {"ident": codec.enc_str("AA"), "digits": 2, "fields": [codec.fd_lit(6, 3), codec.fd_int(4, 10)], "delimiter": None},
            {"ident": codec.enc_str("B"), "digits": 2, "fields": [codec.fd_flt(8, 2, 2, "F", "."), codec.fd_lit(5, 11)], "delimiter": None},
        ]
        lines = []
        for _ in range(fsup.nlines(rng, 8)):
            r = rng.random()
            if r < 0.35:
                lines.append("AA " + "".join(rng.choice(pool) for _ in range(6)) + " " + str(rng.randrange(0, 9999)).rjust(4))
            elif r < 0.6:
                lines.append("B " + "{:8.2f}".format(rng.uniform(-999, 999)) + " " + "".join(rng.choice(pool) for _ in range(5)))
            else:
                lines.append("".join(rng.choice(pool) for _ in range(rng.randrange(0, 12))))
        case["regs"] = regs
    elif fam == "block":
        case["blocks"] = [{"begin": fsup.lit_pat("BEG"), "end": fsup.lit_pat("END")}, {"begin": fsup.lit_pat("#"), "end": fsup.lit_pat("#", True)}]
        lines = [rng.choice(["BEG " , "END", "# ", "", "x "]) + "".join(rng.choice(pool) for _ in range(rng.randrange(0, 8))) for _ in range(fsup.nlines(rng, 10))]
    else:
        case["secs"] = [{"fixed": rng.randrange(0, 3)}, {"until": fsup.lit_pat("END")}]
        lines = [rng.choice(["END", "", "x "]) + "".join(rng.choice(pool) for _ in range(rng.randrange(0, 8))) for _ in range(fsup.nlines(rng, 10))]
    x = "\n".join(lines) + ("\n" if lines and rng.random() < 0.7 else "")
    # characters that codecs / text layers are known to treat specially: a leading U+FEFF (BOM look-alike,
    # legitimate content), U+FEFF elsewhere, NEL / LS / PS line-separator look-alikes, form feed, NUL
    if enc in ("utf-8", "utf-16") and rng.random() < 0.25:
        special = rng.choice(["\ufeff", "\ufeff", "\u2028", "\u2029", "\x85", "\x0c", "\x00", "\ufffe"])
        where = rng.choice(["start", "start", "middle", "end"])
        if where == "start":
            x = special + x
        elif where == "end":
            x = x + special
        else:
            k = rng.randrange(0, len(x) + 1)
            x = x[:k] + special + x[k:]
    case["x"] = codec.enc_str(x)
    return case


def corpus_cases():
    d = Path(__file__).resolve().parent.parent.parent / "corpus" / PROP
    out = []
    if d.exists():
        for f in sorted(d.glob("*.json")):
            j = json.loads(f.read_text())
            out.append(j["case"] if "case" in j else j)
    return out


def chunks(tier, seed):
    ch = [{"kind": "corpus"}]
    nrand = {"quick": 1600, "thorough": 120000}.get(tier, 4000)
    per = max(1, nrand // 16)
    for i in range(16):
        ch.append({"kind": "random", "seed": seed * 1000 + i, "n": per})
    return ch


def cases_of(chunk):
    if chunk["kind"] == "corpus":
        yield from corpus_cases()
    else:
        rng = random.Random(chunk["seed"])
        for _ in range(chunk["n"]):
            yield random_case(rng)


def shrinks(case):
    hs = case.get("history") or []
    for i in range(len(hs)):
        rest = hs[:i] + hs[i + 1 :]
        c2 = {k: v for k, v in case.items() if k not in ("history", "history_at")}
        yield {**case, "history": rest} if rest else c2
    x = case["x"]
    n = len(x)
    for k in (n // 2, n // 4, 1):
        if k >= 1:
            for i in range(0, n, k):
                yield {**case, "x": x[:i] + x[i + k :]}
