"""C15 — equality is element-wise, symmetric and deterministic."""
from __future__ import annotations

import json
import random
from io import StringIO
from pathlib import Path

import codec
import filesupport as fsup
from props import c04

PROP = "C15"
LEAN_MODULES = ["Props.C15"]
RULE = (
    "two case shapes. pair: (family register|block|section, sequence a of 1-8 elements (class id incl. a subclass "
    "edge, data list), right-hand side b: equal copy, one position changed, class-only change (incl. subclass <-> "
    "base), proper prefix / extension, the same sequence with one more BLANK default element at the end or inside, or a foreign object: 5, None, 'x', a file of another family). Observed on the "
    "real containers and files: a.data==b.data, b.data==a.data, a==b, b==a, a!=b, a==a. Judged by Spec.C15.holds "
    "(equal iff same length and pointwise same class and equal data; symmetric; reflexive; foreign -> False); each "
    "side is built through one of several container routes (plain appends; remove() of the sole element first; "
    "inserts in reverse; appends with interleaved removals) that end in the same sequence; in 40% of the pairs the two "
    "files are of different classes of the same family (framework class, a subclass, a sibling, a sub-subclass); "
    "compared with the model. reread: (register definitions, content) read twice -> the two files must be equal and "
    "write identical output; a third file with the same elements is built through the API and, when it compares equal, must write the same output too. non-trivial = pair with same-family right-hand side of length >= 1; distinct by full case."
)
ASSUMPTIONS = [
    "element classes of the harness use the isinstance(o, self.__class__) idiom of cfinterface.Register",
    "data values of corresponding elements have the same Python types (same class => same layout); int/float cross-type equality (1 == 1.0) is outside the model",
]
TRUSTED = []
EXHAUSTIVE = {"quick": False, "thorough": False}
FAMILIES = ["register", "block", "section"]
ROUTES = ["append", "append", "remove_sole_first", "prepend_reverse", "extra_then_remove"]
PARENTS = [None, 0, None, 2]  # K1 subclass of K0, K3 subclass of K2


def family_types(fam):
    if fam == "register":
        from cfinterface.components.register import Register as E
        from cfinterface.data.registerdata import RegisterData as D
        from cfinterface.files.registerfile import RegisterFile as F
        from cfinterface.components.defaultregister import DefaultRegister as Dflt
    elif fam == "block":
        from cfinterface.components.block import Block as E
        from cfinterface.data.blockdata import BlockData as D
        from cfinterface.files.blockfile import BlockFile as F
        from cfinterface.components.defaultblock import DefaultBlock as Dflt
    else:
        from cfinterface.components.section import Section as E
        from cfinterface.data.sectiondata import SectionData as D
        from cfinterface.files.sectionfile import SectionFile as F
        from cfinterface.components.defaultsection import DefaultSection as Dflt
    return E, D, F, Dflt


def mk_classes(fam):
    E, D, F, Dflt = family_types(fam)
    ns = {"__slots__": []}
    if fam != "register":
        ns["__eq__"] = lambda self, o: isinstance(o, self.__class__) and o.data == self.data
        ns["__hash__"] = None
    classes = []
    for i, p in enumerate(PARENTS):
        classes.append(type(f"K{i}", (E if p is None else classes[p],), dict(ns)))
    return classes, D, F, Dflt


FILE_CLASSES = ["base", "sub", "sibling", "subsub"]
BLANK = 9


def file_class(F, which, cache={}):
    """file classes of one family: the framework class, a subclass, a sibling
    subclass, a subclass of the subclass (a format class and its variants); the
    property's equality looks at the data only"""
    key = (F, which)
    if key not in cache:
        if which == "base":
            cache[key] = F
        elif which == "sub":
            cache[key] = type("FSub", (F,), {})
        elif which == "sibling":
            cache[key] = type("FSibling", (F,), {})
        else:
            cache[key] = type("FSubSub", (file_class(F, "sub"),), {})
    return cache[key]


def build(fam, seq, types=None, route="append", fcls="base"):
    """route: how the same final sequence is reached through the container API"""
    classes, D, F, Dflt = types or mk_classes(fam)
    F = file_class(F, fcls)
    ph = Dflt(data="")
    data = D(ph)
    # class id 9: a blank default element (what heads every container; free to occur anywhere else as well)
    mk = lambda c, vals: Dflt(data="") if c == BLANK else classes[c](data=[codec.dec_val(v) for v in vals])
    if route == "remove_sole_first":
        data.remove(ph)  # removing the sole element leaves the chain as it is
        getattr(data, {"register": "remove_registers_of_type", "block": "remove_blocks_of_type", "section": "remove_sections_of_type"}[fam])(Dflt)
    if route == "prepend_reverse":
        # append the first, then insert the others after it from the back
        for c, vals in reversed(seq):
            data.add_after(ph, mk(c, vals))
    elif route == "extra_then_remove":
        for i, (c, vals) in enumerate(seq):
            junk = classes[0](data=[{"zz": i}])
            data.append(junk)
            data.append(mk(c, vals))
            data.remove(junk)
    else:
        for c, vals in seq:
            data.append(mk(c, vals))
    return F(data=data)


def foreign(kind, fam, fa=None, types=None, case=None):
    # objects that are not files but are, or carry, a container equal to the file's own
    if kind == "own_container":
        return fa.data
    if kind == "twin_container":
        return build(fam, case["a"], types, "append").data
    if kind == "holder":
        import types as _t

        return _t.SimpleNamespace(data=build(fam, case["a"], types, "append").data)
    if kind == "int":
        return 5
    if kind == "none":
        return None
    if kind == "str":
        return "x"
    other = {"register": "block", "block": "section", "section": "register"}[fam]
    return build(other, [])


def run_impl(case):
    try:
        if case["shape"] == "reread":
            RF, classes = fsup.mk_register_file(case["regs"])
            x = codec.dec_str(case["content"])
            f1, f2 = RF.read(x), RF.read(x)

            def written(f):
                # a value that cannot be rendered (an infinity in E notation: OverflowError in
                # floor(log10(x))) makes write() raise; two equal files must then fail alike
                b = StringIO()
                try:
                    f.write(b)
                    return ("ok", b.getvalue())
                except Exception as e:
                    return ("raised", type(e).__name__)

            # a third file with the same elements built through the API (fresh elements of the same classes
            # holding copies of the data): when it compares equal to the file that was read, the two must write
            # the same output — whatever the identifier columns of the text looked like
            import copy
            from cfinterface.data.registerdata import RegisterData

            els = [e for e in fsup.capped(f1.data, 2000)]
            data3 = None
            for e in els:
                ne = type(e)(data=copy.deepcopy(e.data))
                if data3 is None:
                    data3 = RegisterData(ne)
                else:
                    data3.append(ne)
            f3 = RF(data=data3)
            api_ok = (written(f1) == written(f3)) if bool(f1 == f3) and bool(f3 == f1) else True

            # a fourth one whose whole numbers are held as floats (a column that went through a float64 Series
            # comes back as 10.0): Python compares 10 == 10.0 equal, so the files compare equal — and equal
            # files write identical output
            def as_float(v):
                return float(v) if isinstance(v, int) and not isinstance(v, bool) and abs(v) < 2**53 else copy.deepcopy(v)

            data4 = None
            for e in els:
                ne = type(e)(data=[as_float(v) for v in e.data] if isinstance(e.data, list) else copy.deepcopy(e.data))
                if data4 is None:
                    data4 = RegisterData(ne)
                else:
                    data4.append(ne)
            f4 = RF(data=data4)
            flt_ok = (written(f1) == written(f4)) if bool(f1 == f4) and bool(f4 == f1) else True
            return {"checks": {"equal_file_holding_whole_numbers_as_floats_writes_identical_output": flt_ok, "equal_file_built_through_the_api_writes_identical_output": api_ok, "read_twice_files_equal": bool(f1 == f2), "read_twice_reverse_equal": bool(f2 == f1), "read_twice_not_unequal": not (f1 != f2), "read_twice_data_equal": bool(f1.data == f2.data), "equal_files_write_identical_output": written(f1) == written(f2)}}
        fam = case["family"]
        types = mk_classes(fam)
        fa = build(fam, case["a"], types, case.get("route_a", "append"), case.get("fcls_a", "base"))
        if case["b"] is None:
            rhs = foreign(case["foreign"], fam, fa, types, case)
            if case["foreign"] in ("own_container", "twin_container", "holder"):
                rdata = 5  # the container-level comparison is not the subject of these cases
            else:
                rdata = rhs.data if hasattr(rhs, "data") else rhs
        else:
            rhs = build(fam, case["b"], types, case.get("route_b", "append"), case.get("fcls_b", "base"))
            rdata = rhs.data
        return {"ab_data": bool(fa.data == rdata), "ba_data": bool(rdata == fa.data), "ab_file": bool(fa == rhs), "ba_file": bool(rhs == fa), "ne_file": bool(fa != rhs), "refl_a": bool(fa == fa) and bool(fa.data == fa.data)}
    except Exception as e:
        return codec.enc_exc(e)


def request(case, obs):
    if "harness_exc" in obs:
        obs = {"exc": "harness"}
    if case["shape"] == "reread":
        return {"op": "all", "obs": obs}
    return {"op": "c15", "a": case["a"], "b": case["b"], "obs": obs}


def judge(case, obs, resp):
    if "error" in resp:
        return {"status": "error", "why": resp["error"]}
    if "harness_exc" in obs:
        return {"status": "error", "why": f"harness: {obs['harness_exc']} {obs.get('msg')}"}
    if not resp["model_holds"]:
        return {"status": "error", "why": f"the MODEL violates Spec.C15.holds: {resp.get('model')}"}
    if "exc" in obs:
        return {"status": "oracle", "why": f"comparison raised {obs['exc']}: {obs.get('msg')}"}
    if not resp["holds"]:
        if case["shape"] == "reread":
            return {"status": "oracle", "why": f"reading {codec.dec_str(case['content'])!r} twice: {resp.get('failed')} is false"}
        return {"status": "oracle", "why": f"a={case['a']} b={case['b'] if case['b'] is not None else case.get('foreign')}: got {obs}; required {resp.get('model')}"}
    if not resp["agree"]:
        return {"status": "corr", "why": "model and implementation disagree"}
    return {"status": "ok", "why": ""}


def nontrivial(case):
    return case["shape"] == "pair" and case["b"] is not None and len(case["a"]) >= 1


def features(case, obs):
    if case["shape"] == "reread":
        return ["shape=reread"]
    f = ["shape=pair", f"family={case['family']}", f"len_a={len(case['a'])}", "relation=" + case.get("rel", "?"), "route_a=" + case.get("route_a", "append"), "route_b=" + case.get("route_b", "append"),
         "file_classes=" + ("same" if case.get("fcls_a", "base") == case.get("fcls_b", "base") else "different")]
    if isinstance(obs, dict) and "ab_file" in obs:
        f.append("equal" if obs["ab_file"] else "unequal")
    return f


def signature(rec):
    return rec["case"]["shape"] + rec["case"].get("rel", "")


def matches_known(trigger, case):
    """K1: a float span of the content parses to NaN.  The case counts as the
    known finding only if neutralising the trigger makes it pass."""
    if trigger != "nan_float_span" or case.get("shape") != "reread":
        return False
    x = codec.dec_str(case["content"])
    import re

    if not re.search(r"nan", x, re.I):
        return False
    neutral = re.sub(r"nan", "1.5", x, flags=re.I)
    out = run_impl({**case, "content": codec.enc_str(neutral)})
    return "checks" in out and all(out["checks"].values())


def snippet(case):
    return f"""import sys; sys.path.insert(0, '/verif/harness'); sys.path.insert(0, '/repo')
from props import c15
case = {json.dumps(case)}
print(c15.run_impl(case))
"""


# ------------------------------------------------------------------ generators
VALS = [None, {"i": 0}, {"i": 1}, {"i": -7}, {"s": []}, {"s": codec.enc_str("ab")}, {"s": codec.enc_str("a b")}, codec.enc_val(1.5), codec.enc_val(0.25), {"d": [2021, 2, 3, 0, 0, 0, 0]}]  # no float that equals one of the ints (0 == 0.0 is outside the model, see ASSUMPTIONS)


def rand_seq(rng, n):
    return [[rng.randrange(4), [rng.choice(VALS) for _ in range(rng.randrange(0, 4))]] for _ in range(n)]


def mutate_value(rng, v):
    # a different value of the same Python type (cross-type numeric equality is outside the model)
    pools = [[{"i": 0}, {"i": 1}, {"i": -7}], [{"s": []}, {"s": codec.enc_str("ab")}, {"s": codec.enc_str("a b")}], [codec.enc_val(1.5), codec.enc_val(0.25)]]
    for pool in pools:
        if v in pool:
            return rng.choice([x for x in pool if x != v])
    return {"s": codec.enc_str("zz")} if v is None else None


def random_pair(rng):
    fam = rng.choice(FAMILIES)
    n = rng.randrange(1, 9)
    a = rand_seq(rng, n)
    rel = rng.choice(["equal", "one_changed", "class_only", "subclass_swap", "prefix", "extension", "foreign", "independent", "blank_extra", "blank_both"])
    b, fk = [list(x) for x in json.loads(json.dumps(a))], None
    if rel == "blank_extra":
        # the same sequence with one more BLANK default element, at the end or somewhere inside: one element
        # more is a different file, however little that element would write
        b.insert(rng.choice([len(b), rng.randrange(0, len(b) + 1)]), [BLANK, []])
    if rel == "blank_both":
        i = rng.randrange(0, n + 1)
        a.insert(i, [BLANK, []])
        b.insert(i, [BLANK, []])
    if rel == "one_changed":
        i = rng.randrange(n)
        if b[i][1]:
            k = rng.randrange(len(b[i][1]))
            b[i][1][k] = mutate_value(rng, b[i][1][k])
        else:
            b[i][1] = [{"i": 1}]
    elif rel == "class_only":
        i = rng.randrange(n)
        b[i][0] = (b[i][0] + 2) % 4
    elif rel == "subclass_swap":
        i = rng.randrange(n)
        b[i][0] = b[i][0] ^ 1  # 0<->1, 2<->3 : base <-> subclass
    elif rel == "prefix":
        b = b[: rng.randrange(0, n)]
    elif rel == "extension":
        b = b + rand_seq(rng, rng.randrange(1, 3))
    elif rel == "independent":
        b = rand_seq(rng, rng.randrange(1, 9))
    elif rel == "foreign":
        b, fk = None, rng.choice(["int", "none", "str", "otherfamily", "own_container", "twin_container", "holder"])
    case = {"shape": "pair", "family": fam, "a": a, "b": b, "rel": rel, "route_a": rng.choice(ROUTES), "route_b": rng.choice(ROUTES)}
    if rng.random() < 0.4:
        # the two files are of different classes of the same family
        case["fcls_a"], case["fcls_b"] = rng.choice(FILE_CLASSES), rng.choice(FILE_CLASSES)
    if fk:
        case["foreign"] = fk
    return case


def random_reread(rng):
    c = c04.random_case(rng)
    return {"shape": "reread", "regs": c["regs"], "content": c["content"]}


def corpus_cases():
    d = Path(__file__).resolve().parent.parent.parent / "corpus" / PROP
    out = []
    if d.exists():
        for f in sorted(d.glob("*.json")):
            j = json.loads(f.read_text())
            out.append(j["case"] if "case" in j else j)
    return out


def chunks(tier, seed):
    ch = [{"kind": "corpus"}]
    nrand = {"quick": 6000, "thorough": 480000}.get(tier, 15000)
    per = max(1, nrand // 16)
    for i in range(16):
        ch.append({"kind": "random", "seed": seed * 1000 + i, "n": per, "reread": i % 4 == 3})
    return ch


def cases_of(chunk):
    if chunk["kind"] == "corpus":
        yield from corpus_cases()
    else:
        rng = random.Random(chunk["seed"])
        for _ in range(chunk["n"]):
            yield random_reread(rng) if chunk["reread"] else random_pair(rng)


def shrinks(case):
    if case["shape"] == "reread":
        lines = codec.dec_str(case["content"]).splitlines(True)
        for i in range(len(lines)):
            yield {**case, "content": codec.enc_str("".join(lines[:i] + lines[i + 1 :]))}
        for i in range(len(lines)):
            yield {**case, "content": codec.enc_str(lines[i])}
        n = len(case["regs"])
        if n > 1:
            for i in range(n):
                yield {**case, "regs": case["regs"][:i] + case["regs"][i + 1 :]}
        return
    if case.get("fcls_a", "base") != "base" and case.get("fcls_b", "base") != "base":
        yield {**case, "fcls_a": "base"}
        yield {**case, "fcls_b": "base"}
    if case.get("route_a", "append") != "append":
        yield {**case, "route_a": "append"}
    if case.get("route_b", "append") != "append":
        yield {**case, "route_b": "append"}
    a, b = case["a"], case["b"]
    if b is not None and len(a) == len(b):
        for i in range(len(a)):
            yield {**case, "a": a[:i] + a[i + 1 :], "b": b[:i] + b[i + 1 :]}
    elif len(a) > 1:
        for i in range(len(a)):
            yield {**case, "a": a[:i] + a[i + 1 :]}
