"""C15 — equality is element-wise, symmetric and deterministic."""
from __future__ import annotations

import json
import random
from io import StringIO
from pathlib import Path

import codec
import filesupport as fsup
from props import c04

PROP = "C15"
LEAN_MODULES = ["Props.C15"]
RULE = (
    "two case shapes. pair: (family register|block|section, sequence a of 1-8 elements (class id incl. a subclass "
    "edge, data list), right-hand side b: equal copy, one position changed, class-only change (incl. subclass <-> "
    "base), proper prefix / extension, the same sequence with one more BLANK default element at the end or inside, or a foreign object: 5, None, 'x', a file of another family). Observed on the "
    "real containers and files: a.data==b.data, b.data==a.data, a==b, b==a, a!=b, a==a. Judged by Spec.C15.holds "
    "(equal iff same length and pointwise same class and equal data; symmetric; reflexive; foreign -> False); each "
    "side is built through one of several container routes (plain appends; remove() of the sole element first; "
    "inserts in reverse; appends with interleaved removals) that end in the same sequence; in 40% of the pairs the two "
    "files are of different classes of the same family (framework class, a subclass, a sibling, a sub-subclass); "
    "compared with the model. reread: (register definitions, content) read twice -> the two files must be equal and "
    "write identical output; a third file with the same elements is built through the API and, when it compares equal, must write the same output too. history (objects with a past): in 30% of the pairs one or both files are first built holding OTHER values at one to three positions, compared once (both ways, files and containers), and then brought to the sequence of the case by in-place edits of the elements (assignment into element.data[k], or a new list through the data setter) before the comparisons that are observed - the model is given the final sequences only; shared payloads: in 35% of the pairs without a past some elements of b hold the VERY SAME data object as an element of a with equal values (mostly the corresponding position - two copies of a file sharing their payloads - sometimes another one), whatever the classes of the two elements; the model is given the values only, identity of the payload objects must not matter; in every reread case a further file (the one read, or one built through the API) goes through one or two rounds of earlier uses (written once or twice, written element by element, compared with a twin) each followed by in-place edits of one to three values (element.data[k] = v directly, through a user-defined property whose setter assigns into self.data[k], a new list through the data setter, a new line for a default register; sometimes edited back to the old values) and is then compared with a file freshly built from copies of the values it now holds: when the two compare equal they must write identical output. accepted formats and other content in between: in half of the reread cases the date columns are declared with a LIST of two or three accepted formats (some of them ambiguous with each other) and lines whose dates are rendered in any of the accepted formats are mixed into the content; in half of the reread cases a second content for the same register types (lines of the first one reshuffled plus new lines, dates in any accepted format) is read and written with the same file class between two writes of the first file and before the content is read once more - the first file must write the same output before and after, and the content read again must give a file equal to the first one that writes the same output. non-trivial = pair with same-family right-hand side of length >= 1; distinct by full case."
)
ASSUMPTIONS = [
    "element classes of the harness use the isinstance(o, self.__class__) idiom of cfinterface.Register",
    "data values of corresponding elements have the same Python types (same class => same layout); int/float cross-type equality (1 == 1.0) is outside the model",
]
TRUSTED = []
EXHAUSTIVE = {"quick": False, "thorough": False}
FAMILIES = ["register", "block", "section"]
ROUTES = ["append", "append", "remove_sole_first", "prepend_reverse", "extra_then_remove"]
PARENTS = [None, 0, None, 2]  # K1 subclass of K0, K3 subclass of K2


def family_types(fam):
    if fam == "register":
        from cfinterface.components.register import Register as E
        from cfinterface.data.registerdata import RegisterData as D
        from cfinterface.files.registerfile import RegisterFile as F
        from cfinterface.components.defaultregister import DefaultRegister as Dflt
    elif fam == "block":
        from cfinterface.components.block import Block as E
        from cfinterface.data.blockdata import BlockData as D
        from cfinterface.files.blockfile import BlockFile as F
        from cfinterface.components.defaultblock import DefaultBlock as Dflt
    else:
        from cfinterface.components.section import Section as E
        from cfinterface.data.sectiondata import SectionData as D
        from cfinterface.files.sectionfile import SectionFile as F
        from cfinterface.components.defaultsection import DefaultSection as Dflt
    return E, D, F, Dflt


def mk_classes(fam):
    E, D, F, Dflt = family_types(fam)
    ns = {"__slots__": []}
    if fam != "register":
        ns["__eq__"] = lambda self, o: isinstance(o, self.__class__) and o.data == self.data
        ns["__hash__"] = None
    classes = []
    for i, p in enumerate(PARENTS):
        classes.append(type(f"K{i}", (E if p is None else classes[p],), dict(ns)))
    return classes, D, F, Dflt


FILE_CLASSES = ["base", "sub", "sibling", "subsub"]
BLANK = 9


def file_class(F, which, cache={}):
    """file classes of one family: the framework class, a subclass, a sibling
    subclass, a subclass of the subclass (a format class and its variants); the
    property's equality looks at the data only"""
    key = (F, which)
    if key not in cache:
        if which == "base":
            cache[key] = F
        elif which == "sub":
            cache[key] = type("FSub", (F,), {})
        elif which == "sibling":
            cache[key] = type("FSibling", (F,), {})
        else:
            cache[key] = type("FSubSub", (file_class(F, "sub"),), {})
    return cache[key]


def build(fam, seq, types=None, route="append", fcls="base", made=None, payloads=None):
    """route: how the same final sequence is reached through the container API;
    made: a list that receives the elements created for seq, in order;
    payloads: {position: object} - the element at that position is given this very object as its data"""
    classes, D, F, Dflt = types or mk_classes(fam)
    F = file_class(F, fcls)
    ph = Dflt(data="")
    data = D(ph)
    # class id 9: a blank default element (what heads every container; free to occur anywhere else as well)
    def mk(c, vals, pos=None):
        if c != BLANK and payloads and pos in payloads:
            e = classes[c](data=payloads[pos])
        else:
            e = Dflt(data="") if c == BLANK else classes[c](data=[codec.dec_val(v) for v in vals])
        if made is not None:
            made.append(e)
        return e

    if route == "remove_sole_first":
        data.remove(ph)  # removing the sole element leaves the chain as it is
        getattr(data, {"register": "remove_registers_of_type", "block": "remove_blocks_of_type", "section": "remove_sections_of_type"}[fam])(Dflt)
    if route == "prepend_reverse":
        # append the first, then insert the others after it from the back
        for pos, (c, vals) in reversed(list(enumerate(seq))):
            data.add_after(ph, mk(c, vals, pos))
        if made is not None:
            made.reverse()
    elif route == "extra_then_remove":
        for i, (c, vals) in enumerate(seq):
            junk = classes[0](data=[{"zz": i}])
            data.append(junk)
            data.append(mk(c, vals, i))
            data.remove(junk)
    else:
        for pos, (c, vals) in enumerate(seq):
            data.append(mk(c, vals, pos))
    return F(data=data)


def foreign(kind, fam, fa=None, types=None, case=None):
    # objects that are not files but are, or carry, a container equal to the file's own
    if kind == "own_container":
        return fa.data
    if kind == "twin_container":
        return build(fam, case["a"], types, "append").data
    if kind == "holder":
        import types as _t

        return _t.SimpleNamespace(data=build(fam, case["a"], types, "append").data)
    if kind == "int":
        return 5
    if kind == "none":
        return None
    if kind == "str":
        return "x"
    other = {"register": "block", "block": "section", "section": "register"}[fam]
    return build(other, [])


# ------------------------------------------------------------------ shared payloads
def valid_share(case):
    """the pairs [i, j] of case['share'] that make sense for the sequences as they are: element j of b is to hold
    the data object of element i of a, both are typed elements and the values are the same"""
    a, b = case["a"], case.get("b")
    if not case.get("share") or b is None or case.get("hist_a") or case.get("hist_b"):
        return []
    out, seen = [], set()
    for i, j in case["share"]:
        if 0 <= i < len(a) and 0 <= j < len(b) and j not in seen and a[i][0] != BLANK and b[j][0] != BLANK and a[i][1] == b[j][1]:
            out.append([i, j])
            seen.add(j)
    return out


def rand_share(case):
    """drawn from a stream of its own (derived from the case) so that the cases of the other dimensions stay as they were"""
    import zlib

    a, b = case["a"], case.get("b")
    if b is None or case.get("hist_a") or case.get("hist_b"):
        return None
    rng = random.Random(zlib.crc32(json.dumps(case, sort_keys=True).encode()))
    if rng.random() >= 0.35:
        return None
    share = []
    for j, (cb, vb) in enumerate(b):
        if cb == BLANK:
            continue
        if j < len(a) and a[j][0] != BLANK and a[j][1] == vb and rng.random() < 0.75:
            share.append([j, j])
            continue
        others = [i for i, (ca, va) in enumerate(a) if i != j and ca != BLANK and va == vb]
        if others and rng.random() < 0.2:
            share.append([rng.choice(others), j])
    return share or None


# ------------------------------------------------------------------ objects with a past
def with_old(seq, hist):
    """the sequence a side is FIRST built with: other values at the positions of hist"""
    seq = json.loads(json.dumps(seq))
    for i, k, old in hist:
        if k is None:
            seq[i][1] = old
        else:
            seq[i][1][k] = old
    return seq


def bring_up_to_date(made, seq, hist, style):
    """in-place edits of the elements created for with_old(seq, hist) that leave them holding seq"""
    for n, (i, k, _old) in enumerate(hist):
        final = [codec.dec_val(v) for v in seq[i][1]]
        if k is None or style == "setter" or (style == "mixed" and n % 2):
            made[i].data = final
        else:
            made[i].data[k] = final[k]


def rand_hist(rng, seq):
    idx = [i for i, (c, _) in enumerate(seq) if c != BLANK]
    if not idx:
        return None
    hist = []
    for i in sorted(rng.sample(idx, min(len(idx), rng.randrange(1, 4)))):
        vals = seq[i][1]
        if vals:
            k = rng.randrange(len(vals))
            hist.append([i, k, mutate_value(rng, vals[k])])
        else:
            hist.append([i, None, [{"i": 1}]])
    return hist


NEW_VALUES = {"int": [0, 7, -3, 42], "flt": [1.5, 0.25, 12.0, -2.5], "lit": ["ab", "x", "a b"], "date": [(2021, 2, 3), (1999, 12, 31)]}
WARMUPS = ["write", "write", "write_twice", "elementwise", "compare", "write_and_compare", "none"]


def col_property(k):
    """the usual user-defined property of a register type: the setter assigns into self.data[k]"""
    return property(lambda self: self.data[k], lambda self, v: self.data.__setitem__(k, v))


def history_check(case, RF, classes, x, written):
    """a file with a past (written / compared earlier, values edited in place since) against a file
    freshly built from copies of the values it now holds: equal files write identical output"""
    import copy
    from datetime import datetime
    from cfinterface.data.registerdata import RegisterData
    from cfinterface.components.defaultregister import DefaultRegister

    rng = random.Random(case.get("hist", 0))

    def fresh(els):
        data = None
        for e in els:
            ne = type(e)(data=copy.deepcopy(e.data))
            if data is None:
                data = RegisterData(ne)
            else:
                data.append(ne)
        return RF(data=data)

    base = rng.choice(["read", "built"])
    f = RF.read(x)
    if base == "built":
        f = fresh(fsup.capped(f.data, 2000))
    els = fsup.capped(f.data, 2000)
    typed = [j for j, e in enumerate(els) if not isinstance(e, DefaultRegister) and isinstance(e.data, list) and len(e.data) > 0 and type(e) in classes]
    dflt = [j for j, e in enumerate(els) if j > 0 and isinstance(e, DefaultRegister) and isinstance(e.data, str)]
    steps = []
    for _round in range(rng.randrange(1, 3)):
        warm = rng.choice(WARMUPS)
        steps.append("use:" + warm)
        if warm in ("write", "write_twice", "write_and_compare"):
            written(f)
        if warm == "write_twice":
            written(f)
        if warm == "elementwise":
            st = rng.choice(["", "TEXT"])
            for e in els:
                try:
                    e.write(StringIO(), st)
                except Exception:
                    pass
        if warm in ("compare", "write_and_compare"):
            twin = fresh(els)
            bool(f == twin), bool(twin == f), bool(f.data == twin.data), bool(f != twin)
        pool = typed if typed and (not dflt or rng.random() < 0.85) else dflt
        undo = []
        for j in rng.sample(pool, min(len(pool), rng.randrange(1, 4))):
            e = els[j]
            if isinstance(e, DefaultRegister):
                undo.append((j, None, e.data))
                e.data = "& edited %d\n" % j
                steps.append(f"element#{j}.data = {e.data!r}")
                continue
            k = rng.randrange(len(e.data))
            kind = case["regs"][classes.index(type(e))]["fields"][k]["k"]
            cur = e.data[k]
            cands = [datetime(*v) if kind == "date" else v for v in NEW_VALUES[kind]]
            cands = [v for v in cands if cur is None or v != cur]
            v = None if (cur is not None and rng.random() < 0.15) else rng.choice(cands)
            undo.append((j, k, cur))
            style = rng.choice(["item", "property", "setter"])
            if style == "item":
                e.data[k] = v
            elif style == "property":
                name = f"col{k}"
                if name not in type(e).__dict__:
                    setattr(type(e), name, col_property(k))
                setattr(e, name, v)
            else:
                d = list(e.data)
                d[k] = v
                e.data = d
            steps.append(f"element#{j} ({type(e).__name__}) column {k}: {cur!r} -> {v!r} [{style}]")
        if undo and rng.random() < 0.2:
            for j, k, old in undo:
                if k is None:
                    els[j].data = old
                else:
                    els[j].data[k] = old
            steps.append("edited back to the old values [item]")
    g = fresh(els)
    if not (bool(f == g) and bool(g == f)):
        return True, None
    wf, wg = written(f), written(g)
    if wf == wg:
        return True, None
    return False, {"file": base, "steps": steps, "it_writes": wf[1], "fresh_equal_file_writes": wg[1]}


def between_check(case, RF, x, f1, written):
    """other content for the same register types is read (and written) with the same file class between two
    writes of one file and two reads of one content: a file is equal to itself and must write the same output
    both times; the content read again must give an equal file, and equal files write identical output"""
    if case.get("between") is None:
        return {}, None
    y = codec.dec_str(case["between"])
    w_before = written(f1)
    other = RF.read(y)
    if case.get("between_written", True):
        written(other)
    w_after = written(f1)
    f5 = RF.read(x)
    again_equal = bool(f1 == f5) and bool(f5 == f1) and bool(f1.data == f5.data) and not (f1 != f5)
    w5 = written(f5)
    checks = {
        "same_file_writes_identical_output_before_and_after_other_content_is_read": w_before == w_after,
        "content_read_again_after_other_content_gives_an_equal_file": again_equal,
        "content_read_again_after_other_content_writes_identical_output": (w5 == w_after) if again_equal else True,
    }
    if all(checks.values()):
        return checks, None
    fmts = [[codec.dec_str(f) for f in fd["fmts"]] for r in case["regs"] for fd in r["fields"] if fd["k"] == "date"]
    return checks, {"read_in_between": y, "accepted_date_formats": fmts, "first_file_wrote_before": w_before[1], "first_file_wrote_after": w_after[1], "content_read_again_wrote": w5[1]}


def run_impl(case):
    try:
        if case["shape"] == "reread":
            RF, classes = fsup.mk_register_file(case["regs"])
            x = codec.dec_str(case["content"])
            f1, f2 = RF.read(x), RF.read(x)

            def written(f):
                # a value that cannot be rendered (an infinity in E notation: OverflowError in
                # floor(log10(x))) makes write() raise; two equal files must then fail alike
                b = StringIO()
                try:
                    f.write(b)
                    return ("ok", b.getvalue())
                except Exception as e:
                    return ("raised", type(e).__name__)

            # a third file with the same elements built through the API (fresh elements of the same classes
            # holding copies of the data): when it compares equal to the file that was read, the two must write
            # the same output — whatever the identifier columns of the text looked like
            import copy
            from cfinterface.data.registerdata import RegisterData

            els = [e for e in fsup.capped(f1.data, 2000)]
            data3 = None
            for e in els:
                ne = type(e)(data=copy.deepcopy(e.data))
                if data3 is None:
                    data3 = RegisterData(ne)
                else:
                    data3.append(ne)
            f3 = RF(data=data3)
            api_ok = (written(f1) == written(f3)) if bool(f1 == f3) and bool(f3 == f1) else True

            # a fourth one whose whole numbers are held as floats (a column that went through a float64 Series
            # comes back as 10.0): Python compares 10 == 10.0 equal, so the files compare equal — and equal
            # files write identical output
            def as_float(v):
                return float(v) if isinstance(v, int) and not isinstance(v, bool) and abs(v) < 2**53 else copy.deepcopy(v)

            data4 = None
            for e in els:
                ne = type(e)(data=[as_float(v) for v in e.data] if isinstance(e.data, list) else copy.deepcopy(e.data))
                if data4 is None:
                    data4 = RegisterData(ne)
                else:
                    data4.append(ne)
            f4 = RF(data=data4)
            flt_ok = (written(f1) == written(f4)) if bool(f1 == f4) and bool(f4 == f1) else True
            hist_ok, hist_detail = history_check(case, RF, classes, x, written)
            btw, btw_detail = between_check(case, RF, x, f1, written)
            return {**({"history": hist_detail} if hist_detail else {}), **({"between": btw_detail} if btw_detail else {}), "checks": {**btw, "file_used_before_and_edited_in_place_writes_like_a_freshly_built_equal_file": hist_ok, "equal_file_holding_whole_numbers_as_floats_writes_identical_output": flt_ok, "equal_file_built_through_the_api_writes_identical_output": api_ok, "read_twice_files_equal": bool(f1 == f2), "read_twice_reverse_equal": bool(f2 == f1), "read_twice_not_unequal": not (f1 != f2), "read_twice_data_equal": bool(f1.data == f2.data), "equal_files_write_identical_output": written(f1) == written(f2)}}
        fam = case["family"]
        types = mk_classes(fam)
        ha, hb = case.get("hist_a"), case.get("hist_b") if case["b"] is not None else None
        made_a, made_b = [], []
        fa = build(fam, with_old(case["a"], ha) if ha else case["a"], types, case.get("route_a", "append"), case.get("fcls_a", "base"), made_a)
        if case["b"] is None:
            rhs = foreign(case["foreign"], fam, fa, types, case)
            if case["foreign"] in ("own_container", "twin_container", "holder"):
                rdata = 5  # the container-level comparison is not the subject of these cases
            else:
                rdata = rhs.data if hasattr(rhs, "data") else rhs
        else:
            # shared payloads: some elements of b are given the very data object of an element of a (equal values)
            shared = {j: made_a[i].data for i, j in valid_share(case)}
            rhs = build(fam, with_old(case["b"], hb) if hb else case["b"], types, case.get("route_b", "append"), case.get("fcls_b", "base"), made_b, shared or None)
            rdata = rhs.data
        if ha or hb:
            # the objects have a past: they held other values, were compared, and were then edited in place;
            # what is observed below is judged on the sequences they hold now
            bool(fa.data == rdata), bool(rdata == fa.data), bool(fa == rhs), bool(rhs == fa), bool(fa != rhs), bool(fa == fa)
            if ha:
                bring_up_to_date(made_a, case["a"], ha, case.get("hist_style", "item"))
            if hb:
                bring_up_to_date(made_b, case["b"], hb, case.get("hist_style", "item"))
        return {"ab_data": bool(fa.data == rdata), "ba_data": bool(rdata == fa.data), "ab_file": bool(fa == rhs), "ba_file": bool(rhs == fa), "ne_file": bool(fa != rhs), "refl_a": bool(fa == fa) and bool(fa.data == fa.data)}
    except Exception as e:
        return codec.enc_exc(e)


def request(case, obs):
    if "harness_exc" in obs:
        obs = {"exc": "harness"}
    if case["shape"] == "reread":
        return {"op": "all", "obs": obs}
    return {"op": "c15", "a": case["a"], "b": case["b"], "obs": obs}


def judge(case, obs, resp):
    if "error" in resp:
        return {"status": "error", "why": resp["error"]}
    if "harness_exc" in obs:
        return {"status": "error", "why": f"harness: {obs['harness_exc']} {obs.get('msg')}"}
    if not resp["model_holds"]:
        return {"status": "error", "why": f"the MODEL violates Spec.C15.holds: {resp.get('model')}"}
    if "exc" in obs:
        return {"status": "oracle", "why": f"comparison raised {obs['exc']}: {obs.get('msg')}"}
    if not resp["holds"]:
        if case["shape"] == "reread":
            more = f"; history: {obs['history']}" if isinstance(obs, dict) and obs.get("history") else ""
            if isinstance(obs, dict) and obs.get("between"):
                more += f"; other content in between: {obs['between']}"
            return {"status": "oracle", "why": f"reading {codec.dec_str(case['content'])!r} twice: {resp.get('failed')} is false{more}"}
        past = "".join(f"; {side} first held {with_old(case[side], case['hist_' + side])}, was compared, then edited in place ({case.get('hist_style', 'item')}) to the sequence shown" for side in ("a", "b") if case.get("hist_" + side) and case[side] is not None)
        sh = valid_share(case)
        if sh:
            past += "; shared payloads: " + ", ".join(f"element {j} of b holds the very same data object as element {i} of a" for i, j in sh)
        return {"status": "oracle", "why": f"a={case['a']} b={case['b'] if case['b'] is not None else case.get('foreign')}: got {obs}; required {resp.get('model')}{past}"}
    if not resp["agree"]:
        return {"status": "corr", "why": "model and implementation disagree"}
    return {"status": "ok", "why": ""}


def nontrivial(case):
    return case["shape"] == "pair" and case["b"] is not None and len(case["a"]) >= 1


def features(case, obs):
    if case["shape"] == "reread":
        return ["shape=reread"]
    f = ["shape=pair", f"family={case['family']}", f"len_a={len(case['a'])}", "relation=" + case.get("rel", "?"), "route_a=" + case.get("route_a", "append"), "route_b=" + case.get("route_b", "append"),
         "file_classes=" + ("same" if case.get("fcls_a", "base") == case.get("fcls_b", "base") else "different")]
    f.append("history=" + ("+".join(x for x in ("a", "b") if case.get("hist_" + x)) or "none"))
    sh = valid_share(case)
    f.append("shared_payloads=" + ("none" if not sh else "same_class" if all(case["a"][i][0] == case["b"][j][0] for i, j in sh) else "across_classes"))
    if isinstance(obs, dict) and "ab_file" in obs:
        f.append("equal" if obs["ab_file"] else "unequal")
    return f


def signature(rec):
    return rec["case"]["shape"] + rec["case"].get("rel", "")


def matches_known(trigger, case):
    """K1: a float span of the content parses to NaN.  The case counts as the
    known finding only if neutralising the trigger makes it pass."""
    if trigger != "nan_float_span" or case.get("shape") != "reread":
        return False
    x = codec.dec_str(case["content"])
    import re

    if not re.search(r"nan", x, re.I):
        return False
    neutral = re.sub(r"nan", "1.5", x, flags=re.I)
    out = run_impl({**case, "content": codec.enc_str(neutral)})
    return "checks" in out and all(out["checks"].values())


def snippet(case):
    return f"""import sys; sys.path.insert(0, '/verif/harness'); sys.path.insert(0, '/repo')
from props import c15
case = {json.dumps(case)}
print(c15.run_impl(case))
"""


# ------------------------------------------------------------------ generators
VALS = [None, {"i": 0}, {"i": 1}, {"i": -7}, {"s": []}, {"s": codec.enc_str("ab")}, {"s": codec.enc_str("a b")}, codec.enc_val(1.5), codec.enc_val(0.25), {"d": [2021, 2, 3, 0, 0, 0, 0]}]  # no float that equals one of the ints (0 == 0.0 is outside the model, see ASSUMPTIONS)


def rand_seq(rng, n):
    return [[rng.randrange(4), [rng.choice(VALS) for _ in range(rng.randrange(0, 4))]] for _ in range(n)]


def mutate_value(rng, v):
    # a different value of the same Python type (cross-type numeric equality is outside the model)
    pools = [[{"i": 0}, {"i": 1}, {"i": -7}], [{"s": []}, {"s": codec.enc_str("ab")}, {"s": codec.enc_str("a b")}], [codec.enc_val(1.5), codec.enc_val(0.25)]]
    for pool in pools:
        if v in pool:
            return rng.choice([x for x in pool if x != v])
    return {"s": codec.enc_str("zz")} if v is None else None


def random_pair(rng):
    fam = rng.choice(FAMILIES)
    n = rng.randrange(1, 9)
    a = rand_seq(rng, n)
    rel = rng.choice(["equal", "one_changed", "class_only", "subclass_swap", "prefix", "extension", "foreign", "independent", "blank_extra", "blank_both"])
    b, fk = [list(x) for x in json.loads(json.dumps(a))], None
    if rel == "blank_extra":
        # the same sequence with one more BLANK default element, at the end or somewhere inside: one element
        # more is a different file, however little that element would write
        b.insert(rng.choice([len(b), rng.randrange(0, len(b) + 1)]), [BLANK, []])
    if rel == "blank_both":
        i = rng.randrange(0, n + 1)
        a.insert(i, [BLANK, []])
        b.insert(i, [BLANK, []])
    if rel == "one_changed":
        i = rng.randrange(n)
        if b[i][1]:
            k = rng.randrange(len(b[i][1]))
            b[i][1][k] = mutate_value(rng, b[i][1][k])
        else:
            b[i][1] = [{"i": 1}]
    elif rel == "class_only":
        i = rng.randrange(n)
        b[i][0] = (b[i][0] + 2) % 4
    elif rel == "subclass_swap":
        i = rng.randrange(n)
        b[i][0] = b[i][0] ^ 1  # 0<->1, 2<->3 : base <-> subclass
    elif rel == "prefix":
        b = b[: rng.randrange(0, n)]
    elif rel == "extension":
        b = b + rand_seq(rng, rng.randrange(1, 3))
    elif rel == "independent":
        b = rand_seq(rng, rng.randrange(1, 9))
    elif rel == "foreign":
        b, fk = None, rng.choice(["int", "none", "str", "otherfamily", "own_container", "twin_container", "holder"])
    case = {"shape": "pair", "family": fam, "a": a, "b": b, "rel": rel, "route_a": rng.choice(ROUTES), "route_b": rng.choice(ROUTES)}
    if rng.random() < 0.4:
        # the two files are of different classes of the same family
        case["fcls_a"], case["fcls_b"] = rng.choice(FILE_CLASSES), rng.choice(FILE_CLASSES)
    if fk:
        case["foreign"] = fk
    if rng.random() < 0.3:
        # objects with a past: built with other values, compared, then edited in place to the sequences above
        sides = rng.choice([["a"], ["b"], ["a", "b"]])
        case["hist_style"] = rng.choice(["item", "setter", "mixed"])
        for side in sides:
            h = rand_hist(rng, case[side]) if case[side] is not None else None
            if h:
                case["hist_" + side] = h
    share = rand_share(case)
    if share:
        case["share"] = share
    return case


DATE_FORMATS = {
    6: ["%d%m%y", "%y%m%d", "%m%d%y"],
    8: ["%d/%m/%y", "%m/%d/%y", "%y-%m-%d", "%Y%m%d", "%d%m%Y", "%d%m%y"],
    10: ["%Y/%m/%d", "%d-%m-%Y", "%m-%d-%Y", "%d/%m/%Y", "%Y%m%d", "%d/%m/%y"],
}


def widen_dates(rng, regs):
    """date columns that accept a list of two or three formats (DatetimeField(format=[...]))"""
    regs = json.loads(json.dumps(regs))
    for r in regs:
        for fd in r["fields"]:
            if fd["k"] == "date" and rng.random() < 0.8:
                pool = DATE_FORMATS.get(fd["size"], DATE_FORMATS[10])
                fd["fmts"] = [codec.enc_str(f) for f in rng.sample(pool, rng.randrange(2, 4))]
    return regs


def dated_line(rng, r):
    """a line of register type r whose date columns hold a date rendered in ANY of the accepted formats
    (a day up to 12 half of the time: day and month can then be taken for each other)"""
    from datetime import datetime

    def tok(f):
        if f["k"] == "date" and rng.random() < 0.9:
            day = rng.randrange(1, 13) if rng.random() < 0.5 else rng.randrange(13, 29)
            d = datetime(rng.randrange(1970, 2069), rng.randrange(1, 13), day)
            return d.strftime(codec.dec_str(rng.choice(f["fmts"])))
        return rng.choice(c04.SAMPLE_DATA)

    ident = codec.dec_str(r["ident"])
    if r.get("delimiter"):
        return codec.dec_data(r["delimiter"]).join([ident] + [tok(f) for f in r["fields"]]) + "\n"
    width = max([r["digits"]] + [f["start"] + f["size"] for f in r["fields"]])
    line = list(ident.ljust(width))
    for f in r["fields"]:
        t = tok(f)[: f["size"]]
        t = t.rjust(f["size"]) if f["k"] in ("int", "flt") else t.ljust(f["size"])
        line[f["start"] : f["start"] + f["size"]] = list(t)
    return "".join(line) + "\n"


def with_dated_lines(rng, regs, lines, n):
    with_date = [r for r in regs if any(f["k"] == "date" for f in r["fields"])] or regs
    lines = list(lines)
    for _ in range(n):
        lines.insert(rng.randrange(len(lines) + 1), dated_line(rng, rng.choice(with_date)))
    return lines


def random_reread(rng):
    c = c04.random_case(rng)
    case = {"shape": "reread", "regs": c["regs"], "content": c["content"], "hist": rng.randrange(1 << 30)}
    x = codec.dec_str(case["content"])
    if rng.random() < 0.5:
        # date columns with several accepted formats; lines in any of them mixed into the content
        case["regs"] = widen_dates(rng, case["regs"])
        lines = x.splitlines(True)
        if lines and not lines[-1].endswith("\n"):
            lines[-1] += "\n"
        x = "".join(with_dated_lines(rng, case["regs"], lines, rng.randrange(1, 5)))
        case["content"] = codec.enc_str(x)
    if rng.random() < 0.5:
        # other content for the same register types, read (and usually written) in between
        lines = x.splitlines(True)
        rng.shuffle(lines)
        lines = [l if l.endswith("\n") else l + "\n" for l in lines[: rng.randrange(0, 4)]]
        case["between"] = codec.enc_str("".join(with_dated_lines(rng, case["regs"], lines, rng.randrange(1, 5))))
        case["between_written"] = rng.random() < 0.7
    return case


def corpus_cases():
    d = Path(__file__).resolve().parent.parent.parent / "corpus" / PROP
    out = []
    if d.exists():
        for f in sorted(d.glob("*.json")):
            j = json.loads(f.read_text())
            out.append(j["case"] if "case" in j else j)
    return out


def chunks(tier, seed):
    ch = [{"kind": "corpus"}]
    nrand = {"quick": 6000, "thorough": 480000}.get(tier, 15000)
    per = max(1, nrand // 16)
    for i in range(16):
        ch.append({"kind": "random", "seed": seed * 1000 + i, "n": per, "reread": i % 4 == 3})
    return ch


def cases_of(chunk):
    if chunk["kind"] == "corpus":
        yield from corpus_cases()
    else:
        rng = random.Random(chunk["seed"])
        for _ in range(chunk["n"]):
            yield random_reread(rng) if chunk["reread"] else random_pair(rng)


def shrinks(case):
    if case["shape"] == "reread":
        lines = codec.dec_str(case["content"]).splitlines(True)
        for i in range(len(lines)):
            yield {**case, "content": codec.enc_str("".join(lines[:i] + lines[i + 1 :]))}
        for i in range(len(lines)):
            yield {**case, "content": codec.enc_str(lines[i])}
        n = len(case["regs"])
        if n > 1:
            for i in range(n):
                yield {**case, "regs": case["regs"][:i] + case["regs"][i + 1 :]}
        if case.get("between") is not None:
            yield {k: v for k, v in case.items() if k not in ("between", "between_written")}
            bl = codec.dec_str(case["between"]).splitlines(True)
            if len(bl) > 1:
                for i in range(len(bl)):
                    yield {**case, "between": codec.enc_str("".join(bl[:i] + bl[i + 1 :]))}
        return
    for side in ("a", "b"):
        if case.get("hist_" + side):
            yield {k: v for k, v in case.items() if k != "hist_" + side}
    if case.get("hist_a") or case.get("hist_b"):
        return  # positions of a history refer to the sequences as they are
    if case.get("share"):
        yield {k: v for k, v in case.items() if k != "share"}
        if len(case["share"]) > 1:
            for n in range(len(case["share"])):
                yield {**case, "share": case["share"][:n] + case["share"][n + 1 :]}
    if case.get("fcls_a", "base") != "base" and case.get("fcls_b", "base") != "base":
        yield {**case, "fcls_a": "base"}
        yield {**case, "fcls_b": "base"}
    if case.get("route_a", "append") != "append":
        yield {**case, "route_a": "append"}
    if case.get("route_b", "append") != "append":
        yield {**case, "route_b": "append"}
    a, b = case["a"], case["b"]

    def reshare(i, both):
        # positions of the shared payloads after element i is dropped (from a, or from a and b)
        if not case.get("share"):
            return {}
        sh = [[p - (p > i), q - (q > i and both)] for p, q in case["share"] if p != i and not (both and q == i)]
        return {"share": sh}

    if b is not None and len(a) == len(b):
        for i in range(len(a)):
            yield {**case, "a": a[:i] + a[i + 1 :], "b": b[:i] + b[i + 1 :], **reshare(i, True)}
    elif len(a) > 1:
        for i in range(len(a)):
            yield {**case, "a": a[:i] + a[i + 1 :], **reshare(i, False)}
