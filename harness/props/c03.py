"""C03 — reading a field is total, local to its span, follows the declared format."""
from __future__ import annotations

import itertools
import json
import random
import struct
from datetime import datetime
from pathlib import Path

import codec

PROP = "C03"
LEAN_MODULES = ["Props.C03"]
RULE = (
    "case = (field configuration, sequence of str/bytes lines read through ONE field object). Every read result is "
    "compared with Spec.C03.expected (the model's parse of the Python-clamped span; None if invalid) and must not "
    "raise. Sources: corpus; ALL strings up to length 3 (quick) / 4 (thorough) over the adversarial alphabet "
    "(digits, signs, . , e E _ n a i f blank tab newline NUL, Arabic-Indic and full-width digits, / :) placed at "
    "column 0 and inside a 2-character margin whose content varies (locality twins); random longer lines; bytes: all "
    "65536 two-byte payloads for 2-byte ints and floats, sampled 4/8-byte payloads, every truncation length, invalid "
    "UTF-8 families; failing reads interleaved with succeeding ones (no stale value), three lines in ten of a random sequence repeat an earlier line of it; a quarter of the random sequences, every fourth exhaustive batch and every other two-byte batch hand the SAME field object lines of BOTH kinds (str and bytes interleaved, an earlier line of the first kind read again afterwards): each read means what its own line's kind and span mean, whatever kind was read before; a quarter of the random sequences, every fourth exhaustive batch and every fourth two-byte batch read through a field object that was DECLARED elsewhere or wider/narrower and brought to the span by the public setters (ending_position alone, starting_position alone, both in either order, size alone; half of them after a first read at the declared place): the span that is read is [starting_position, ending_position) as the object reports it at the time of the read, and the model is asked about that span only. Independently the model's "
    "expectation is compared with CPython's own int()/float()/strptime()/strip()/struct on the same span (model "
    "validation). non-trivial = the span is not empty; distinct by full case."
)
ASSUMPTIONS = [
    "date formats are within the modelled directive set (%Y %m %d %H %M %S %y %f %%, uncased separators), each directive at most once",
    "float decimal separator is a single character",
    "spans are shorter than 4300 characters (int() digit limit)",
]
TRUSTED = ["CPython int()/float()/strptime()/str.strip()/bytes.decode and numpy.frombuffer are what the model's parsers are validated against, on every run"]
EXHAUSTIVE = {"quick": False, "thorough": False}

ALPHA = list("0123456789+-.,eE_naif \t\n\x00") + ["٣", "３"]
ALPHA_SMALL = list("019+-.,eE_naif \t\x00") + ["٣"]
DATE_ALPHA = list("0129/: -") + ["٣"]

TEXT_CONFIGS = [
    codec.fd_int(3, 0),
    codec.fd_int(3, 2),
    codec.fd_flt(3, 0, 2, "F", "."),
    codec.fd_flt(3, 2, 2, "F", ","),
    codec.fd_flt(4, 1, 3, "E", "."),
    codec.fd_lit(3, 0),
    codec.fd_lit(3, 2),
]
DATE_CONFIGS = [
    codec.fd_date(10, 0, ["%Y/%m/%d"]),
    codec.fd_date(10, 2, ["%d/%m/%Y", "%Y-%m-%d"]),
    codec.fd_date(5, 0, ["%H:%M"]),
    codec.fd_date(6, 1, ["%d%m%y", "%H%M%S"]),
    codec.fd_date(8, 0, ["%d %m %y"]),
    codec.fd_date(4, 0, ["%d%m"]),
]


def span_of(fd, line):
    return line[fd["start"] : fd["start"] + fd["size"]]


def bin_reference(fd, span: bytes):
    k = fd["k"]
    try:
        if k == "lit":
            return span.decode("utf-8").strip()
        if k == "date":
            s = span.decode("utf-8").strip()
            for f in fd["fmts"]:
                try:
                    return datetime.strptime(s, codec.dec_str(f))
                except ValueError:
                    pass
            return None
        w = fd["size"] if fd["size"] in (2, 4, 8) else 4
        if len(span) < w:
            return None
        if k == "int":
            return int.from_bytes(span[:w], "little", signed=True)
        if k == "flt":
            return struct.unpack({2: "<e", 4: "<f", 8: "<d"}[w], span[:w])[0]
    except ValueError:
        return None


def width_of(k, size):
    """Width of the binary number a field DECLARED with this size holds (only int/flt have one)."""
    return (size if size in (2, 4, 8) else 4) if k in ("int", "flt") else 0


def build(case):
    """The field object of a case. Without "moved": declared at the span. With "moved": declared with
    (size0, start0), possibly used once there, and then brought to the span of case["field"] through the
    public setters; the harness itself verifies that the object then REPORTS that span."""
    fd, mv = case["field"], case.get("moved")
    if not mv:
        return codec.mk_field(fd)
    f = codec.mk_field({**fd, "size": mv["size0"], "start": mv["start0"]})
    if mv.get("warm") and case["lines"]:
        try:
            f.read(codec.dec_data(case["lines"][0]))
        except Exception:
            pass
    for name, val in mv["steps"]:
        setattr(f, name, val)
    if (f.starting_position, f.ending_position) != (fd["start"], fd["start"] + fd["size"]):
        raise AssertionError(f"generator: the moves {mv} do not lead to the span of {fd}: object reports [{f.starting_position},{f.ending_position})")
    return f


def run_impl(case):
    f = build(case)
    outs, refs = [], []
    for n, lj in enumerate(case["lines"]):
        line = codec.dec_data(lj)
        if n % 2 == 1 and case["field"]["size"] > 0:
            # between two reads the same field object WRITES a value (text and bytes): what a field
            # reads afterwards still depends only on the span and on the declaration
            try:
                from datetime import datetime

                k = case["field"]["k"]
                f.value = {"int": 7, "flt": 1.5, "lit": "w", "date": datetime(2021, 12, 25)}[k]
                f.write("")
                f.write(b"")
            except Exception:
                pass
        try:
            got = f.read(line)
            ret = codec.enc_val(got)
            kept = codec.enc_val(f.value)  # what the field object holds afterwards (what Line.read gathers)
            # the property is about both: a failed parse must not leave the previous value behind
            if ret != kept:
                outs.append({"exc": "ReturnedAndStoredDiffer", "msg": f"read() returned {ret} but field.value is {kept}"})
            elif isinstance(ret, dict) and ("b" in ret or "other" in ret):
                # no reference interpretation of any span is a value of such a type (bytes, ...)
                outs.append({"exc": "ResultOfAnotherType", "msg": f"read() returned {got!r:.80}, a {type(got).__name__}"})
            else:
                outs.append(ret)
        except Exception as e:
            outs.append(codec.enc_exc(e))
        span = span_of(case["field"], line)
        refs.append(codec.enc_val(codec.py_reference_text(case["field"], span) if isinstance(line, str) else bin_reference(case["field"], span)))
    return {"outs": outs, "pyref": refs}


def request(case, obs):
    outs = obs.get("outs") or [{"exc": "harness"}] * len(case["lines"])
    return {"op": "c03", "field": case["field"], "reads": [{"line": l, "out": o} for l, o in zip(case["lines"], outs)]}


def judge(case, obs, resp):
    if "error" in resp:
        return {"status": "error", "why": resp["error"]}
    if "harness_exc" in obs:
        return {"status": "error", "why": f"harness: {obs['harness_exc']} {obs.get('msg')}"}
    if not resp["indomain"]:
        return {"status": "skip", "why": "configuration outside the modelled domain"}
    # model validation against CPython's own primitives
    for i, (e, r) in enumerate(zip(resp["expected"], obs["pyref"])):
        if e != r:
            return {"status": "error", "why": f"MODEL differs from CPython reference on line #{i}: model {e} python {r}"}
    if not resp["holds"]:
        b = resp["first_bad"]
        i = b["index"]
        got = obs["outs"][i]
        if isinstance(got, dict) and "exc" in got:
            what = got["msg"] if got["exc"] in ("ReturnedAndStoredDiffer", "ResultOfAnotherType") else f"raised {got['exc']}: {got.get('msg')}"
        else:
            what = f"returned {got}"
        kinds = ["bytes" if "b" in l else "str" for l in case["lines"]]
        if i and kinds[i] not in kinds[:i]:
            what = f"(a {kinds[i]} line, after {kinds[0]} lines through the same field object) " + what
        mv = case.get("moved")
        if mv:
            fd = case["field"]
            what = (f"(field declared with size={mv['size0']} start={mv['start0']}, then " + ", ".join(f"{n} = {v}" for n, v in mv["steps"])
                    + f": it reports the span [{fd['start']},{fd['start'] + fd['size']})) " + what)
        return {"status": "oracle", "why": f"read #{i} {what}; the span means {b['expected']}"}
    return {"status": "ok", "why": ""}


def nontrivial(case):
    return any(len(span_of(case["field"], codec.dec_data(l))) > 0 for l in case["lines"])


def features(case, obs):
    f = [f"kind={case['field']['k']}", "bytes" if "b" in case["lines"][0] else "str", f"reads={min(len(case['lines']), 64)}"]
    if len(kinds_of(case)) > 1:
        f.append("str_and_bytes_through_one_object")
    if case.get("moved"):
        f.append("span_set_by_" + "+".join(n for n, _ in case["moved"]["steps"]))
    outs = obs.get("outs", [])
    n_none = sum(1 for o in outs if o is None)
    f.append("has_invalid_span" if n_none else "all_valid")
    if n_none and n_none < len(outs):
        f.append("valid_and_invalid_interleaved")
    return f


def kinds_of(case):
    return {"b" if "b" in l else "s" for l in case["lines"]}


def signature(rec):
    return rec["case"]["field"]["k"] + ("b" if "b" in rec["case"]["lines"][0] else "s") + ("+mixed" if len(kinds_of(rec["case"])) > 1 else "") + ("+moved" if rec["case"].get("moved") else "")


def matches_known(trigger, case):
    return False


def snippet(case):
    return f"""import sys; sys.path.insert(0, '/verif/harness'); sys.path.insert(0, '/repo')
import codec
case = {json.dumps(case)}
mv = case.get('moved')
f = codec.mk_field(dict(case['field'], size=mv['size0'], start=mv['start0']) if mv else case['field'])
if mv:
    if mv.get('warm') and case['lines']: f.read(codec.dec_data(case['lines'][0]))
    for name, val in mv['steps']: setattr(f, name, val)
print('span reported by the object:', f.starting_position, f.ending_position)
for l in case['lines']:
    line = codec.dec_data(l)
    try: print(repr(line), '->', repr(f.read(line)))
    except Exception as e: print(repr(line), 'RAISED', repr(e))
"""


# ------------------------------------------------------------------ generators
def place(fd, span, rng, margin_variant):
    """Puts `span` at the field's columns; the margin content varies."""
    start = fd["start"]
    pre = "".join(rng.choice("7x 9.") for _ in range(start))
    post = ["", "5", " 1", "xx9"][margin_variant % 4]
    return pre + span + post


def exhaustive_text(fd, maxlen, alpha, seed):
    rng = random.Random(seed)
    batch = []
    i = 0
    nb = 0

    def out(batch):
        # every fourth batch is read through a field object that is also handed bytes lines (the UTF-8
        # encoding of the neighbouring str line) in between
        nonlocal nb
        nb += 1
        if nb % 4 == 0:
            mixed = []
            for j, l in enumerate(batch):
                mixed.append(l)
                if j % 16 == 7:
                    mixed.append(codec.enc_data(codec.dec_data(l).encode("utf-8")))
            batch = mixed
        if nb % 4 == 2:
            return move(random.Random(seed * 100003 + nb), {"field": fd, "lines": batch}, 1.0)
        return {"field": fd, "lines": batch}

    for n in range(0, maxlen + 1):
        for tup in itertools.product(alpha, repeat=n):
            s = "".join(tup)
            # a span shorter than the field only makes sense at the end of the line
            if n < fd["size"]:
                line = place(fd, s, rng, 0)
            else:
                line = place(fd, s, rng, i)
            batch.append(codec.enc_data(line))
            i += 1
            if len(batch) == 64:
                yield out(batch)
                batch = []
    if batch:
        yield out(batch)


TOKENS = ["1", "12", "-3", "+4", "1.5", "1,5", ".5", "5.", "1e3", "1E-2", "1_0", "_1", "1_", "1__0", "nan", "inf", "-inf", "Infinity",
          " ", "  ", "\t", "\x1c", "\xa0", " ", "\x00", "٣٤", "１", "0x1", "1e", "e1", "--1", "+-1", "1 2", "1.2.3",
          "2021/02/03", "2021-02-03", "03/02/2021", "29/02/2021", "29/02/2020", "31/04/2020", "12:34", "24:00", "1:2", "010203", "320101", "",
          "abc", " a b ", "é", "1e400", "1e-400", "-0", "-0.0", "00012", "9" * 20, "0" * 30 + "1"]


def random_text_case(rng, fd_pool):
    fd = dict(rng.choice(fd_pool))
    fd["size"] = rng.randrange(1, 14)
    fd["start"] = rng.randrange(0, 6)
    if fd["k"] == "date":
        fd["size"] = rng.randrange(4, 14)
    lines = []
    for _ in range(rng.randrange(1, 12)):
        if lines and rng.random() < 0.3:
            # the same line again, later in the sequence (after other reads, failed reads and the writes
            # that run_impl interleaves): the same span must read the same
            lines.append(rng.choice(lines))
            continue
        lines.append(codec.enc_data(a_text_line(rng, fd)))
    return move(rng, mix_kinds(rng, {"field": fd, "lines": lines}))


def a_text_line(rng, fd):
    r = rng.random()
    if r < 0.6:
        span = rng.choice(TOKENS)
        span = span.center(rng.randrange(len(span), len(span) + 4)) if rng.random() < 0.5 else span
    else:
        span = "".join(rng.choice(ALPHA) for _ in range(rng.randrange(0, 10)))
    pre = "".join(rng.choice("7x 9.-") for _ in range(fd["start"]))
    return (pre + span)[: rng.randrange(0, len(pre + span) + 1)] if rng.random() < 0.15 else pre + span + rng.choice(["", "9", " 7", "\n"])


def mix_kinds(rng, case, p=0.25):
    """With probability p the sequence becomes one of BOTH kinds of line for the same field object: before
    each line possibly a line of the other kind (at least one in all), and at the end possibly an earlier
    line of the original kind once more. What each read means is still decided by its own line alone."""
    if rng.random() >= p:
        return case
    fd = case["field"]
    other = a_bytes_line if "s" in case["lines"][0] else a_text_line
    lines, added = [], 0
    for l in case["lines"]:
        if rng.random() < 0.5:
            lines.append(codec.enc_data(other(rng, fd)))
            added += 1
        lines.append(l)
    if not added:
        lines.append(codec.enc_data(other(rng, fd)))
    if rng.random() < 0.5:
        lines.append(rng.choice(case["lines"]))
    return {"field": fd, "lines": lines}


def move(rng, case, p=0.25):
    """With probability p the field object of the case is not declared at the span but brought there through
    the public setters. The declaration (size0, start0) is chosen so that the moves lead exactly to the span
    of case["field"]; for binary numbers the declared width is kept (the width is part of the declaration,
    not of the span)."""
    if rng.random() >= p:
        return case
    fd = case["field"]
    k, size, start = fd["k"], fd["size"], fd["start"]
    end = start + size
    binary = k in ("int", "flt") and "b" in kinds_of(case)
    ok = lambda s0: s0 >= 1 and (not binary or width_of(k, s0) == width_of(k, size))
    how = rng.choice(["end", "start", "both", "both_rev", "size"])
    size0, start0, steps = size, start, None
    if how == "end":
        cands = [s for s in range(1, 15) if s != size and ok(s)]
        if cands:
            size0, steps = rng.choice(cands), [["ending_position", end]]
    elif how == "start":
        cands = [p0 for p0 in range(0, end) if p0 != start and ok(end - p0)]
        if cands:
            start0 = rng.choice(cands)
            size0, steps = end - start0, [["starting_position", start]]
    elif how == "size":
        steps = [["size", rng.choice([s for s in range(0, 15) if s != size])]]
    if steps is None:
        cands = [s for s in range(1, 15) if ok(s)]
        size0 = rng.choice(cands)
        start0 = rng.choice([p0 for p0 in range(0, 9) if (p0, size0) != (start, size)])
        steps = [["starting_position", start], ["ending_position", end]]
        if how == "both_rev":
            steps.reverse()
        if rng.random() < 0.3:
            steps.append(["size", size])
    return {**case, "moved": {"size0": size0, "start0": start0, "warm": rng.random() < 0.5, "steps": steps}}


BAD_UTF8 = [b"\x80", b"\xc0\x80", b"\xed\xa0\x80", b"\xe2\x82", b"\xf5\x80\x80\x80", b"\xff", b"\xc3\xa9", b"\xe2\x82\xac"]


def bytes_cases_2byte(kind, part, of):
    fd = codec.fd_int(2, 0) if kind == "int" else codec.fd_flt(2, 0)
    batch = []
    nb = 0
    for v in range(part, 65536, of):
        batch.append(codec.enc_data(struct.pack("<H", v)))
        if len(batch) % 64 == 32 and nb % 2 == 1:
            # every other batch: str lines in between, through the same field object
            batch.append(codec.enc_data(["12", "-3", " 7", "1.5", "x", ""][(v // of) % 6]))
        if len(batch) >= 256:
            c = {"field": fd, "lines": batch}
            yield move(random.Random(part * 1009 + nb), c, 1.0) if nb % 4 == 2 else c
            batch = []
            nb += 1
    if batch:
        yield {"field": fd, "lines": batch}


def random_bytes_case(rng):
    k = rng.choice(["int", "flt", "lit", "date"])
    start = rng.randrange(0, 4)
    if k in ("int", "flt"):
        size = rng.choice([2, 4, 8, 8, 4, 3])
        fd = codec.fd_int(size, start) if k == "int" else codec.fd_flt(size, start)
    elif k == "lit":
        fd = codec.fd_lit(rng.randrange(1, 8), start)
    else:
        fd = codec.fd_date(rng.randrange(6, 12), start, rng.choice([["%Y/%m/%d"], ["%d%m%y", "%Y%m%d"]]))
    lines = []
    for _ in range(rng.randrange(1, 10)):
        lines.append(codec.enc_data(a_bytes_line(rng, fd)))
    return move(rng, mix_kinds(rng, {"field": fd, "lines": lines}))


def a_bytes_line(rng, fd):
    k, start, n = fd["k"], fd["start"], fd["size"]
    r = rng.random()
    if k in ("int", "flt"):
        if r < 0.3:
            payload = rng.choice([b"\x00" * n, b"\xff" * n, b"\x00" * (n - 1) + b"\x80", b"\xff" * (n - 1) + b"\x7f", b"\x00" * (n - 2) + b"\xf0\x7f", b"\x01" + b"\x00" * (n - 1)])[:n]
        else:
            payload = bytes(rng.randrange(256) for _ in range(n))
    else:
        if r < 0.4:
            payload = rng.choice(BAD_UTF8) + b"ab"
        elif r < 0.7 and k == "date":
            payload = rng.choice([b"2021/02/03", b"030221", b"20210203", b"2021/13/03", b" 030221 "])
        else:
            payload = bytes(rng.choice(b"ab 12/\t\xc3\xa9") for _ in range(n))
    line = bytes(rng.randrange(256) for _ in range(start)) + payload + bytes(rng.randrange(256) for _ in range(rng.randrange(0, 3)))
    if rng.random() < 0.25:
        line = line[: rng.randrange(0, len(line) + 1)]
    return line


def corpus_cases():
    d = Path(__file__).resolve().parent.parent.parent / "corpus" / PROP
    out = []
    if d.exists():
        for f in sorted(d.glob("*.json")):
            j = json.loads(f.read_text())
            out.append(j["case"] if "case" in j else j)
    return out


def chunks(tier, seed):
    ch = [{"kind": "corpus"}]
    if tier == "quick":
        maxlen, nrand, parts2 = 3, 3000, 4
        alpha = "small"
    elif tier == "thorough":
        maxlen, nrand, parts2 = 4, 240000, 1
        alpha = "full"
    else:
        maxlen, nrand, parts2 = 3, 10000, 4
        alpha = "small"
    for i, fd in enumerate(TEXT_CONFIGS):
        ch.append({"kind": "exh", "cfg": i, "maxlen": maxlen, "alpha": alpha, "seed": seed})
    for i, fd in enumerate(DATE_CONFIGS):
        ch.append({"kind": "exh_date", "cfg": i, "maxlen": maxlen + 1, "seed": seed})
    for k in ("int", "flt"):
        for p in range(2):
            ch.append({"kind": "b2", "k": k, "part": p * parts2, "of": 2 * parts2})
    per = max(1, nrand // 8)
    for i in range(8):
        ch.append({"kind": "rtext", "seed": seed * 1000 + i, "n": per})
    for i in range(4):
        ch.append({"kind": "rbytes", "seed": seed * 1000 + 100 + i, "n": per})
    return ch


def cases_of(chunk):
    k = chunk["kind"]
    if k == "corpus":
        yield from corpus_cases()
    elif k == "exh":
        yield from exhaustive_text(TEXT_CONFIGS[chunk["cfg"]], chunk["maxlen"], ALPHA if chunk["alpha"] == "full" else ALPHA_SMALL, chunk["seed"])
    elif k == "exh_date":
        yield from exhaustive_text(DATE_CONFIGS[chunk["cfg"]], chunk["maxlen"], DATE_ALPHA, chunk["seed"])
    elif k == "b2":
        yield from bytes_cases_2byte(chunk["k"], chunk["part"], chunk["of"])
    elif k == "rtext":
        rng = random.Random(chunk["seed"])
        for _ in range(chunk["n"]):
            yield random_text_case(rng, TEXT_CONFIGS + DATE_CONFIGS)
    elif k == "rbytes":
        rng = random.Random(chunk["seed"])
        for _ in range(chunk["n"]):
            yield random_bytes_case(rng)


def shrinks(case):
    ls = case["lines"]
    n = len(ls)
    if case.get("moved"):
        yield {k: v for k, v in case.items() if k != "moved"}
        if case["moved"].get("warm"):
            yield {**case, "moved": {**case["moved"], "warm": False}}
    if n > 1:
        # whole blocks first (halves, quarters, ...), so that a long batch comes down in few steps
        k = n // 2
        while k >= 2:
            for i in range(0, n, k):
                yield {**case, "lines": ls[:i] + ls[i + k :]}
            k //= 2
        for i in range(n):
            yield {**case, "lines": ls[:i] + ls[i + 1 :]}
        for i in range(n):
            yield {**case, "lines": [ls[i]]}
    for i, l in enumerate(ls):
        key = "s" if "s" in l else "b"
        a = l[key]
        for j in range(len(a)):
            yield {**case, "lines": ls[:i] + [{key: a[:j] + a[j + 1 :]}] + ls[i + 1 :]}
