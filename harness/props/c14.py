"""C14 — no hidden sharing: objects never change as a side effect of other objects."""
from __future__ import annotations

import json
import random
import zlib
from io import BytesIO, StringIO
from pathlib import Path

import codec
import filesupport as fsup

PROP = "C14"
LEAN_MODULES = ["Props.C14"]
RULE = (
    "case = a program: a random interleaving of operations over 2-4 objects of the same or related classes - "
    "registers of two classes that share ONE Line object or one Field object, and of a class deriving from one of them with a layout of its own (construct, read a line, write, mutate "
    "own data, mutate the list a read returned), register files (construct without arguments, read content, append / "
    "remove elements, MOVE an element from one file to another (remove there, append here), write), block and section files constructed without arguments. An element may also be TAKEN OUT of a file and kept by the caller while that file goes on with operations of its own, and be PUT INTO a file of the same family later (append, preppend, add_after the first, add_before the last element; registers, default blocks and default sections; the same element may travel several times): the file it left is not changed by where the element goes afterwards. The LISTS a container hands out are objects of the caller too: at any point of a file's history the caller may query its container by type (get_registers_of_type / get_blocks_of_type / get_sections_of_type without filters, or list(of_type), for a base class, a default class or one register class), keep the list and edit it in place, at once or later (reverse, pop, clear, append an element of his own, ...), possibly holding two lists of one file; neither the query nor the edits belong to the file's own operations (its isolated replay has none of them; each list is compared with a replay of its file and itself alone), and a file may remove its elements by type afterwards; the observables of a file include what its container answers to the queries by type. After each of its own "
    "operations every object's observables are recorded (register data and written text; file length, element data, "
    "written output). The same operations of EACH object alone are then replayed on fresh objects; the two "
    "observation sequences must be identical for every object (Driver C14 handler), and: files constructed without "
    "arguments do not share their container, equal File.read('') and write '' (to a buffer, to a fresh path and to a path holding another file's earlier output); the list a Line.read returns is not changed by a later read through the same Line (positional, delimited, binary). non-trivial = at least two objects "
    "with at least one operation each; distinct by full case."
)
ASSUMPTIONS = [
    "register data lists have one entry per field (the constructor's default); an element belongs to at most one container",
    "Python aliasing (which expressions create new objects) is represented by hand in the Lean model (Props.C14); the interleaving-vs-isolated comparison is what exercises it on the real code",
]
TRUSTED = []
NOT_THEOREMS = ['which Python expressions create new objects is represented by hand in Cfi/World.lean; the model is compared with the code on the registers of one class in every interleaved program, all other objects by the interleaved-vs-isolated comparison']
EXHAUSTIVE = {"quick": False, "thorough": False}


def make_env():
    """two register classes sharing ONE Line; a third sharing one Field with them"""
    from cfinterface.components.integerfield import IntegerField
    from cfinterface.components.line import Line
    from cfinterface.components.literalfield import LiteralField
    from cfinterface.components.floatfield import FloatField
    from cfinterface.components.register import Register
    from cfinterface.files.registerfile import RegisterFile
    from cfinterface.files.blockfile import BlockFile
    from cfinterface.files.sectionfile import SectionFile

    f_int = IntegerField(4, 3)
    f_lit = LiteralField(5, 8)
    f_flt = FloatField(7, 14, 2)
    shared_line = Line([f_int, f_lit, f_flt])
    RA = type("RA", (Register,), {"IDENTIFIER": "AA", "IDENTIFIER_DIGITS": 2, "LINE": shared_line, "__slots__": []})
    RB = type("RB", (Register,), {"IDENTIFIER": "BB", "IDENTIFIER_DIGITS": 2, "LINE": shared_line, "__slots__": []})
    RC = type("RC", (Register,), {"IDENTIFIER": "CC", "IDENTIFIER_DIGITS": 2, "LINE": Line([f_int, LiteralField(3, 8)], delimiter=None), "__slots__": []})
    RD = type("RD", (Register,), {"IDENTIFIER": "DD", "IDENTIFIER_DIGITS": 2, "LINE": Line([f_lit, f_int], delimiter=";"), "__slots__": []})
    from cfinterface.components.datetimefield import DatetimeField

    # a date field with a list of formats that overlap on some texts, used by every register of RE
    f_date = DatetimeField(10, 3, format=["%m/%d/%Y", "%d/%m/%Y"])
    RE = type("RE", (Register,), {"IDENTIFIER": "EE", "IDENTIFIER_DIGITS": 2, "LINE": Line([f_date, LiteralField(3, 14)]), "__slots__": []})
    # a later "version" of RA: a register class deriving from another concrete register class, with a layout
    # of its own (one more column)
    RG = type("RG", (RA,), {"IDENTIFIER": "GG", "LINE": Line([IntegerField(4, 3), LiteralField(5, 8), FloatField(7, 14, 2), IntegerField(3, 22)]), "__slots__": []})
    RF = type("RF", (RegisterFile,), {"REGISTERS": [RA, RB, RC, RD, RE, RG], "__slots__": []})
    BF = type("BF", (BlockFile,), {"BLOCKS": [], "__slots__": []})
    SF = type("SF", (SectionFile,), {"SECTIONS": [], "__slots__": []})
    return {"RA": RA, "RB": RB, "RC": RC, "RD": RD, "RE": RE, "RG": RG, "RF": RF, "BF": BF, "SF": SF}


def obs_reg(r):
    buf = StringIO()
    try:
        r.write(buf, "")
        w = buf.getvalue()
    except Exception as e:
        w = "EXC:" + type(e).__name__
    d = r.data
    return {"data": [codec.enc_val(v) for v in d] if isinstance(d, list) else codec.enc_val(d), "written": w}


def obs_file(f, binary=False):
    try:
        fsup.capped(f.data, 500)
    except RuntimeError:
        return {"elems": "CYCLE: iteration of the container does not end", "written": "not attempted"}
    try:
        elems = []
        for e in fsup.capped(f.data, 200):
            d = e.data
            elems.append([type(e).__name__, [codec.enc_val(v) for v in d] if isinstance(d, list) else codec.enc_val(d)])
    except Exception as e:
        elems = "EXC:" + type(e).__name__
    buf = StringIO()
    try:
        f.write(buf)
        w = buf.getvalue()
    except Exception as e:
        w = "EXC:" + type(e).__name__
    return {"elems": elems, "written": w, "by_type": obs_by_type(f)}


BASES = {"RF": ("Register", "DefaultRegister"), "BF": ("Block", "DefaultBlock"), "SF": ("Section", "DefaultSection")}


def family_of(f):
    d = f.data
    return "RF" if hasattr(d, "get_registers_of_type") else ("BF" if hasattr(d, "get_blocks_of_type") else "SF")


def type_of(env, name):
    if env is not None and name in env:
        return env[name]
    import importlib

    return getattr(importlib.import_module("cfinterface.components." + name.lower()), name)


def query(env, f, cls, via="get"):
    """what the container of `f` answers to a query by type without filters, as a list (None: no element,
    a single element: a list of the caller's own)"""
    d, t = f.data, (type_of(env, cls) if isinstance(cls, str) else cls)
    if via == "of":
        return list(d.of_type(t))
    got = getattr(d, {"RF": "get_registers_of_type", "BF": "get_blocks_of_type", "SF": "get_sections_of_type"}[family_of(f)])(t)
    return [] if got is None else (got if isinstance(got, list) else [got])


def obs_by_type(f):
    """the answers of the container to queries by type: for the base class and the default class of the family
    and for every register class of a member (members named by their position in the container)"""
    try:
        members = list(fsup.capped(f.data, 500))
        pos = {id(m): i for i, m in enumerate(members)}

        def name(e):
            return pos[id(e)] if id(e) in pos else "not a member: " + type(e).__name__ + " " + repr(getattr(e, "data", None))[:40]

        types = {n: type_of(None, n) for n in BASES[family_of(f)]}
        for m in members:
            for k in type(m).__mro__:
                if k.__name__ in ("RA", "RB", "RC", "RD", "RE", "RG"):
                    types.setdefault(k.__name__, k)
        return {n: {"get": [name(e) for e in query(None, f, t, "get")], "of_type": [name(e) for e in query(None, f, t, "of")]} for n, t in types.items()}
    except Exception as e:
        return "EXC:" + type(e).__name__


def obs_list(lst):
    return {"list": [[type(e).__name__, [codec.enc_val(v) for v in e.data] if isinstance(e.data, list) else codec.enc_val(e.data)] for e in lst[:200]]}


def edit_list(env, lst, edit, fcls):
    """the caller edits a list he was given"""
    if edit == "reverse":
        lst.reverse()
    elif edit == "pop":
        if lst:
            lst.pop()
    elif edit == "pop0":
        if lst:
            lst.pop(0)
    elif edit == "clear":
        lst.clear()
    elif edit == "append_own":
        lst.append(make_element(env, {"fcls": fcls, "text": "mine\n"}))
    elif edit == "double":
        lst.extend(list(lst))
    elif edit == "sort":
        lst.sort(key=lambda e: repr(e.data))


def make_element(env, step):
    """a fresh element with the data the step names (a register of one of the classes, or a default element)"""
    if step.get("cls") in ("RA", "RB", "RC", "RD", "RE", "RG"):
        return env[step["cls"]](data=[codec.dec_val(v) for v in step["data"]])
    from cfinterface.components.defaultblock import DefaultBlock
    from cfinterface.components.defaultregister import DefaultRegister
    from cfinterface.components.defaultsection import DefaultSection

    return {"RF": DefaultRegister, "BF": DefaultBlock, "SF": DefaultSection}[step["fcls"]](data=step["text"])


def apply(env, objs, step):
    """executes one step; returns the observation of the object the step belongs to"""
    oid, op = step["obj"], step["op"]
    if op == "new_reg":
        vals = None if step.get("data") is None else [codec.dec_val(v) for v in step["data"]]
        objs[oid] = ("reg", env[step["cls"]](data=vals))
    elif op == "reg_read":
        kind, r = objs[oid]
        r.read(StringIO(codec.dec_str(step["line"])), "")
        if step.get("keep_result"):
            objs[oid] = ("reg", r)
    elif op == "reg_write":
        kind, r = objs[oid]
        try:
            r.write(StringIO(), "")
        except Exception:
            pass
    elif op == "reg_set":
        kind, r = objs[oid]
        if isinstance(r.data, list) and step["index"] < len(r.data):
            r.data[step["index"]] = codec.dec_val(step["value"])
    elif op == "new_file":
        objs[oid] = ("file", env[step["cls"]]())
    elif op == "file_read":
        objs[oid] = ("file", env["RF"].read(codec.dec_str(step["content"])))
    elif op == "file_append":
        kind, f = objs[oid]
        if step["cls"] in ("RA", "RB", "RC", "RD", "RE", "RG"):
            el = env[step["cls"]](data=[codec.dec_val(v) for v in step["data"]])
            if "tag" in step:
                objs.setdefault("__tags__", {})[step["tag"]] = el
        else:
            from cfinterface.components.defaultblock import DefaultBlock
            from cfinterface.components.defaultregister import DefaultRegister
            from cfinterface.components.defaultsection import DefaultSection

            el = {"RF": DefaultRegister, "BF": DefaultBlock, "SF": DefaultSection}[step["fcls"]](data=step["text"])
            if "tag" in step:
                objs.setdefault("__tags__", {})[step["tag"]] = el
        f.data.append(el)
    elif op == "file_take_out":
        # an operation of THIS file: the element added to it earlier under the tag is removed and the caller
        # keeps it (it is in no container until a later file_put_in)
        kind, f = objs[oid]
        el = objs.setdefault("__tags__", {}).get(step["tag"])
        if el is not None and len(f.data) > 1 and any(m is el for m in fsup.capped(f.data, 500)):
            f.data.remove(el)
            objs.setdefault("__out__", set()).add(step["tag"])
    elif op == "file_put_in":
        # an operation of THIS file: the element the caller holds (taken out of some file earlier) is added
        # here; where the element is not at hand (the isolated replay of this file alone, or a program in
        # which it was never taken out) an equal fresh element is added instead
        kind, f = objs[oid]
        tags = objs.setdefault("__tags__", {})
        out = objs.setdefault("__out__", set())
        el = tags.get(step["tag"]) if step["tag"] in out else None
        if el is None:
            el = make_element(env, step)
        out.discard(step["tag"])
        tags[step["tag"]] = el
        how = step.get("how", "append")
        if how == "append":
            f.data.append(el)
        elif how == "preppend":
            f.data.preppend(el)
        elif how == "after_first":
            f.data.add_after(f.data.first, el)
        else:
            f.data.add_before(f.data.last, el)
    elif op == "file_move_in":
        # an element (appended earlier to file `src` with tag t) is moved to this file:
        # src.data.remove(el); this.data.append(el).  In the isolated replay of this file alone the
        # element is a fresh register with the same data; in the isolated replay of `src` it is only removed.
        tags = objs.setdefault("__tags__", {})
        el = tags.get(step["tag"])
        mode = step.get("__mode__")
        if mode == "src_only":
            src = objs[step["src"]][1]
            if el is not None and len(src.data) > 1:
                src.data.remove(el)
            return None
        if mode == "dst_only" or el is None:
            el = env[step["cls"]](data=[codec.dec_val(v) for v in step["data"]])
        else:
            src = objs[step["src"]][1]
            if len(src.data) > 1:
                src.data.remove(el)
        kind, f = objs[oid]  # (a program whose destination was never created: the source still loses the element)
        f.data.append(el)
    elif op == "loose_element":
        # an element constructed with the optional previous= / next= arguments naming a member of
        # some file's container, and never added to any container: constructing it must not
        # change that file (in the isolated replay of this object alone there is no neighbour)
        from cfinterface.components.defaultblock import DefaultBlock
        from cfinterface.components.defaultregister import DefaultRegister
        from cfinterface.components.defaultsection import DefaultSection

        near = objs.get(step["near"])
        kw = {}
        if near is not None and near[0] == "file":
            member = near[1].data.last if step["side"] == "previous" else near[1].data.first
            kw = {step["side"]: member}
        cls = {"RF": DefaultRegister, "BF": DefaultBlock, "SF": DefaultSection}[step["fcls"]]
        objs[oid] = ("loose", cls(data="loose\n", **kw))
        return {"loose": "loose\n"}
    elif op == "file_remove_last":
        kind, f = objs[oid]
        if len(f.data) > 1:
            f.data.remove(f.data.last)
    elif op == "file_remove_type":
        kind, f = objs[oid]
        getattr(f.data, {"RF": "remove_registers_of_type", "BF": "remove_blocks_of_type", "SF": "remove_sections_of_type"}[family_of(f)])(type_of(env, step["cls"]))
    elif op == "list_query":
        # an object of the CALLER: the list the container of file `near` answers a query by type with; he
        # keeps it and edits it (now and in later list_edit steps)
        near = objs.get(step["near"])
        lst = query(env, near[1], step["cls"], step.get("via", "get")) if near is not None and near[0] == "file" else []
        for e in step.get("edits", []):
            edit_list(env, lst, e, step["fcls"])
        objs[oid] = ("list", lst)
        return obs_list(lst)
    elif op == "list_edit":
        kind, lst = objs[oid]
        edit_list(env, lst, step["edit"], step["fcls"])
        return obs_list(lst)
    elif op == "file_write":
        kind, f = objs[oid]
        try:
            f.write(StringIO())
        except Exception:
            pass
    kind, o = objs[oid]
    if kind == "loose":
        return {"loose": o.data}
    if kind == "list":
        return obs_list(o)
    return obs_reg(o) if kind == "reg" else obs_file(o)


def run_program(steps, only=None):
    env = make_env()
    objs, out = {}, {}
    # the isolated run of a list the caller was given by a container: the operations of that file and of the list
    keep = {only} | {s["near"] for s in steps if s["obj"] == only and s.get("op") == "list_query"}
    for st in steps:
        st = dict(st)
        if only is not None and st["obj"] not in keep:
            if st.get("op") == "file_move_in" and st.get("src") in keep:
                st["__mode__"] = "src_only"  # the source file only loses the element
            else:
                continue
        elif only is not None and st.get("op") == "file_move_in" and st.get("src") not in keep:
            st["__mode__"] = "dst_only"  # the destination alone receives an equal fresh element
        try:
            o = apply(env, objs, st)
        except Exception as e:
            o = {"exc": type(e).__name__, "msg": str(e)[:100]}
        if st.get("__mode__") == "src_only":
            continue
        out.setdefault(st["obj"], []).append(o)
    # final observation of every object (after everybody's operations)
    for oid, val in objs.items():
        if oid in ("__tags__", "__out__"):
            continue
        kind, o = val
        if only is None or oid == only:
            try:
                out.setdefault(oid, []).append({"loose": o.data} if kind == "loose" else (obs_list(o) if kind == "list" else (obs_reg(o) if kind == "reg" else obs_file(o))))
            except Exception as e:
                out.setdefault(oid, []).append({"exc": type(e).__name__})
    return out


def default_file_checks():
    env = make_env()
    checks = {}
    for name in ("RF", "BF", "SF"):
        F = env[name]
        a, b = F(), F()
        checks[f"{name}_default_containers_not_shared"] = a.data is not b.data
        checks[f"{name}_default_elements_not_shared"] = a.data.first is not b.data.first
        checks[f"{name}_default_starts_empty"] = len(a.data) == 1
        try:
            checks[f"{name}_default_equals_read_empty"] = bool(a == F.read("")) and bool(F.read("") == a)
        except Exception:
            checks[f"{name}_default_equals_read_empty"] = False
        buf = StringIO()
        try:
            a.write(buf)
            checks[f"{name}_default_writes_empty_output"] = buf.getvalue() == ""
        except Exception:
            checks[f"{name}_default_writes_empty_output"] = False
        r1, r2 = F.read(""), F.read("")
        checks[f"{name}_two_reads_independent_containers"] = r1.data is not r2.data
        # growing one default-constructed file leaves another one (older or newer) as it was
        try:
            c = F()
            x = type(a.data.first)(data="x\n")
            y = type(a.data.first)(data="y\n")
            a.data.preppend(y)
            a.data.append(x)
            e = F()
            checks[f"{name}_default_unaffected_by_growth_of_another"] = all(
                len(k.data) == 1 and [m for m in k.data] == [k.data.first] and k.data.first.next is None and k.data.first.previous is None and k.data.last is k.data.first
                for k in (b, c, e)
            )
        except Exception:
            checks[f"{name}_default_unaffected_by_growth_of_another"] = False
    # the same clauses in binary storage (register and block families)
    from io import BytesIO

    for name, extra in (("RF", (4,)), ("BF", ())):
        FB = type(name + "Binary", (env[name],), {"STORAGE": "BINARY"})
        a, b = FB(), FB()
        checks[f"{name}_binary_default_containers_not_shared"] = a.data is not b.data
        try:
            checks[f"{name}_binary_default_equals_read_empty"] = bool(a == FB.read(b"", *extra)) and bool(FB.read(b"", *extra) == a)
        except Exception:
            checks[f"{name}_binary_default_equals_read_empty"] = False
        buf = BytesIO()
        try:
            a.write(buf)
            checks[f"{name}_binary_default_writes_empty_output"] = buf.getvalue() == b""
        except Exception:
            checks[f"{name}_binary_default_writes_empty_output"] = False
    # a file constructed without arguments writes empty output to a PATH as well: to a fresh path (the file
    # exists and is empty) and to a path that holds the earlier output of ANOTHER file object
    import os
    import shutil
    import tempfile

    d = tempfile.mkdtemp(prefix="cfi_c14_")
    try:
        for name in ("RF", "BF", "SF"):
            F = env[name]
            try:
                other = F()
                other.data.append(type(other.data.first)(data="earlier output of another file\n"))
                used = os.path.join(d, name + "_used.txt")
                other.write(used)
                F().write(used)
                fresh = os.path.join(d, name + "_fresh.txt")
                F().write(fresh)
                with open(used, encoding="utf-8") as fh:
                    u = fh.read()
                checks[f"{name}_default_written_to_a_used_path_leaves_it_empty"] = u == ""
                checks[f"{name}_default_written_to_a_fresh_path_creates_an_empty_file"] = os.path.isfile(fresh) and os.path.getsize(fresh) == 0
            except Exception:
                checks[f"{name}_default_written_to_a_used_path_leaves_it_empty"] = False
    finally:
        shutil.rmtree(d, ignore_errors=True)
    # line results: the list a Line.read / Line.values returns belongs to the caller (a block or a section
    # keeps it as its data): a later read through the same Line, or a change made to a later result, never
    # changes an earlier one — in text (positional, delimited) and in binary storage
    from cfinterface.components.integerfield import IntegerField
    from cfinterface.components.line import Line
    from cfinterface.components.literalfield import LiteralField

    for name, kw, first, second in (
        ("positional", {}, "  12 abc\n", "   7 zz\n"),
        ("delimited", {"delimiter": ";"}, "12;abc\n", "7;zz\n"),
        ("binary", {"storage": "BINARY"}, b"\x0c\x00\x00\x00abc ", b"\x07\x00\x00\x00zz  "),
    ):
        try:
            ln = Line([IntegerField(4, 0), LiteralField(4, 4 if name != "positional" else 5)], **kw)
            r1 = ln.read(first)
            kept = list(r1)
            v1 = ln.values
            r2 = ln.read(second)
            ok = r1 == kept and r1 is not r2 and v1 == kept
            r2[0] = 99
            ok = ok and r1 == kept and ln.values is not r2 and ln.values[0] != 99
            checks[f"line_results_{name}_independent"] = bool(ok and kept[0] == 12)
        except Exception:
            checks[f"line_results_{name}_independent"] = False
    return checks


def run_impl(case):
    try:
        inter = run_program(case["steps"])
        objects = []
        for oid in sorted(inter):
            iso = run_program(case["steps"], only=oid)
            objects.append({"obj": oid, "interleaved": inter[oid], "isolated": iso.get(oid, [])})
        return {"objects": objects, "checks": default_file_checks() if case.get("defaults") else {}, "world": world_view(case, inter)}
    except Exception as e:
        return codec.enc_exc(e)


RA_REG = {"ident": codec.enc_str("AA"), "digits": 2, "fields": [codec.fd_int(4, 3), codec.fd_lit(5, 8), codec.fd_flt(7, 14, 2)], "delimiter": None}


def world_view(case, inter):
    """the operations that name registers of class RA (and only those), for the Lean World model;
    by the non-interference theorem the model run on this sub-history must predict the data these
    registers hold at the end of the FULL interleaved run on the real code"""
    ra = {s["obj"] for s in case["steps"] if s["op"] == "new_reg" and s["cls"] == "RA"}
    ops = []
    for s in case["steps"]:
        if s["obj"] not in ra:
            continue
        if s["op"] == "new_reg":
            ops.append(["new", s["obj"], s.get("data")])
        elif s["op"] == "reg_read":
            ops.append(["read", s["obj"], s["line"]])
        elif s["op"] == "reg_write":
            ops.append(["write", s["obj"]])
        elif s["op"] == "reg_set":
            ops.append(["set", s["obj"], s["index"], s["value"]])
    final = []
    for oid in sorted(ra):
        last = inter.get(oid, [{}])[-1]
        if isinstance(last.get("data"), list):
            final.append([oid, last["data"]])
    return {"reg": RA_REG, "ops": ops, "final": final}


def request(case, obs):
    if "harness_exc" in obs:
        obs = {"exc": "harness"}
    return {"op": "c14", "obs": obs}


def judge(case, obs, resp):
    if "error" in resp:
        return {"status": "error", "why": resp["error"]}
    if "harness_exc" in obs:
        return {"status": "error", "why": f"harness: {obs['harness_exc']} {obs.get('msg')}"}
    if "exc" in obs:
        return {"status": "error", "why": f"harness raised {obs['exc']}: {obs.get('msg')}"}
    if not resp["holds"]:
        why = []
        for i in resp.get("objects_changed_by_others", []):
            o = obs["objects"][i]
            k = next((j for j in range(max(len(o["interleaved"]), len(o["isolated"]))) if j >= len(o["interleaved"]) or j >= len(o["isolated"]) or o["interleaved"][j] != o["isolated"][j]), None)
            a = o["interleaved"][k] if k is not None and k < len(o["interleaved"]) else None
            b = o["isolated"][k] if k is not None and k < len(o["isolated"]) else None
            if isinstance(a, dict) and isinstance(b, dict) and a.keys() == b.keys():
                # only the observables that differ
                dk = [x for x in a if a[x] != b[x]]
                a, b = {x: a[x] for x in dk}, {x: b[x] for x in dk}
                if dk == ["by_type"] and isinstance(a["by_type"], dict) and isinstance(b["by_type"], dict):
                    a = {"by_type": {x: v for x, v in a["by_type"].items() if b["by_type"].get(x) != v}}
                    b = {"by_type": {x: v for x, v in b["by_type"].items() if x in a["by_type"]}}
            why.append(f"object {o['obj']} differs from its isolated run at its observation #{k}: interleaved {json.dumps(a)[:200]} isolated {json.dumps(b)[:200]}")
        if resp.get("failed"):
            why.append(f"{resp['failed']} false")
        if resp.get("registers_differing_from_world_model"):
            why.append(f"registers {resp['registers_differing_from_world_model']} hold data the World model of their own operations does not predict")
        return {"status": "oracle", "why": "; ".join(why)}
    return {"status": "ok", "why": ""}


def nontrivial(case):
    objs = {s["obj"] for s in case["steps"]}
    return len(objs) >= 2


def features(case, obs):
    f = [f"nobjects={len({s['obj'] for s in case['steps']})}", f"nsteps={min(len(case['steps']), 30)}"]
    f += sorted({"op=" + s["op"] for s in case["steps"]})
    if case.get("defaults"):
        f.append("default_constructor_checks")
    return f


def signature(rec):
    return rec["verdict"]["why"][:30]


def matches_known(trigger, case):
    return False


def snippet(case):
    return f"""import sys, json; sys.path.insert(0, '/verif/harness'); sys.path.insert(0, '/repo')
from props import c14
case = {json.dumps(case)}
out = c14.run_impl(case)
for o in out.get('objects', []):
    print(o['obj'], 'same' if o['interleaved'] == o['isolated'] else 'DIFFERS')
print({{k: v for k, v in out.get('checks', {{}}).items() if not v}})
"""


# ------------------------------------------------------------------ generators
REG_VALS = [[{"i": 1}, {"s": codec.enc_str("ab")}, codec.enc_val(1.5)], [{"i": 22}, None, codec.enc_val(0.0)], [None, {"s": codec.enc_str("xyz")}, None], [{"i": -3}, {"s": []}, codec.enc_val(-2.25)]]
LINES = ["EE 25/12/2019 x\n", "EE 01/02/2020 y\n", "EE 12/25/2019\n", "AA   12 abcde   1.50\n", "BB  -34 x        2.25\n", "AA\n", "BB zzzz\n", "CC    7 qqq\n", "DD;lit;5\n", "DD;x\n", "garbage\n", "GG   12 abcde   1.50  77\n", "GG    5 q\n"]


DATES = [{"d": [2020, 1, 2, 0, 0, 0, 0]}, {"d": [2019, 12, 25, 0, 0, 0, 0]}, None]


def vals_for(cls, rng):
    if cls == "RE":
        return [rng.choice(DATES), rng.choice([{"s": codec.enc_str("z")}, None])]
    v = rng.choice(REG_VALS)
    if cls == "RG":
        return v + [rng.choice([{"i": 7}, None, {"i": 0}])]
    if cls == "RC":
        v = v[:2]
        if rng.random() < 0.15:
            # a value the integer field cannot render: the write of THIS register raises inside the field
            v = [{"s": codec.enc_str("oops")}, v[1]]
        return v
    if cls == "RD":
        v = [v[1], v[0]]
        if rng.random() < 0.15:
            v = [v[0], {"s": codec.enc_str("oops")}]
        return v
    return v


def random_case(rng):
    nobj = rng.randrange(2, 5)
    kinds = []
    steps = []
    for oid in range(nobj):
        k = rng.choice(["reg", "reg", "file", "file0"])
        kinds.append(k)
    created = set()
    tagged = []
    held = []  # elements taken out of a file and not yet put into another one
    for _ in range(rng.randrange(4, 22)):
        oid = rng.randrange(nobj)
        k = kinds[oid]
        if oid not in created:
            if k == "reg":
                cls = rng.choice(["RA", "RB", "RC", "RD", "RE", "RG", "RG"])
                steps.append({"obj": oid, "op": "new_reg", "cls": cls, "data": rng.choice([None, vals_for(cls, rng)])})
                kinds[oid] = "reg:" + cls
            elif k == "file":
                steps.append({"obj": oid, "op": "file_read", "content": codec.enc_str("".join(rng.choice(LINES) for _ in range(rng.randrange(0, 4))))})
                kinds[oid] = "file:RF"
            else:
                cls = rng.choice(["RF", "BF", "SF"])
                steps.append({"obj": oid, "op": "new_file", "cls": cls})
                kinds[oid] = "file:" + cls
            created.add(oid)
            continue
        if k.startswith("reg"):
            cls = k.split(":")[1]
            r = rng.random()
            if r < 0.35:
                steps.append({"obj": oid, "op": "reg_read", "line": codec.enc_str(rng.choice(LINES))})
            elif r < 0.6:
                steps.append({"obj": oid, "op": "reg_write"})
            else:
                v = vals_for(cls, rng)
                i = rng.randrange(len(v))
                steps.append({"obj": oid, "op": "reg_set", "index": i, "value": v[i]})
        else:
            fcls = k.split(":")[1]
            r = rng.random()
            movable = [t for t in tagged if t["obj"] != oid and kinds[t["obj"]] == "file:RF" and "data" in t]
            mine = [t for t in tagged if t["obj"] == oid]
            fitting = [h for h in held if h["fam"] == fcls]
            if fitting and rng.random() < 0.3:
                # an element somebody took out of a file earlier is put into this one
                h = rng.choice(fitting)
                held.remove(h)
                st = {k: v for k, v in h.items() if k not in ("fam", "from")}
                st.update({"obj": oid, "op": "file_put_in", "how": rng.choice(["append", "append", "preppend", "after_first", "before_last"])})
                steps.append(st)
                tagged.append({**h, "obj": oid})
            elif mine and rng.random() < 0.25:
                # an element of this file is taken out and kept by the caller
                t = rng.choice(mine)
                tagged.remove(t)
                steps.append({"obj": oid, "op": "file_take_out", "tag": t["tag"]})
                held.append({**{k: v for k, v in t.items() if k in ("tag", "cls", "data", "fcls", "text")}, "fam": fcls})
            elif fcls == "RF" and movable and rng.random() < 0.25:
                t = rng.choice(movable)
                tagged.remove(t)
                steps.append({"obj": oid, "op": "file_move_in", "src": t["obj"], "tag": t["tag"], "cls": t["cls"], "data": t["data"]})
            elif r < 0.45:
                if fcls == "RF" and rng.random() < 0.7:
                    cls = rng.choice(["RA", "RB", "RC", "RD", "RE", "RG", "RG"])
                    st = {"obj": oid, "op": "file_append", "cls": cls, "data": vals_for(cls, rng), "tag": len(steps)}
                    steps.append(st)
                    tagged.append(st)
                else:
                    st = {"obj": oid, "op": "file_append", "cls": "dflt", "fcls": fcls, "text": rng.choice(["free\n", "x\n"]), "tag": len(steps)}
                    steps.append(st)
                    tagged.append(st)
            elif r < 0.6:
                steps.append({"obj": oid, "op": "file_remove_last"})
                tagged[:] = [t for t in tagged if t["obj"] != oid]  # the last element may have been a tagged one
            elif r < 0.7:
                # somebody constructs an element NEXT to a member of this file and keeps it for himself
                loose_id = 1000 + len(steps)
                steps.append({"obj": loose_id, "op": "loose_element", "near": oid, "fcls": fcls, "side": rng.choice(["previous", "next"])})
            else:
                steps.append({"obj": oid, "op": "file_write"})
    return with_caller_lists({"steps": steps, "defaults": rng.random() < 0.2})


EDITS = ["reverse", "pop", "pop0", "clear", "append_own", "double", "sort"]


def with_caller_lists(case):
    """in half of the programs the caller also asks containers for their elements by type, keeps the lists and
    edits them (choices drawn from a generator of their own, derived from the program)"""
    steps = list(case["steps"])
    rng = random.Random(zlib.crc32(json.dumps(steps, sort_keys=True).encode()))
    if rng.random() >= 0.5:
        return case
    files = {}
    for s in steps:
        if s["op"] == "file_read":
            files.setdefault(s["obj"], "RF")
        elif s["op"] == "new_file":
            files.setdefault(s["obj"], s["cls"])
    if not files:
        return case
    travel = {x for s in steps if s["op"] in ("file_take_out", "file_put_in", "file_move_in") for x in (s["obj"], s.get("src"))}
    nid = 2000
    for _ in range(rng.choice([1, 1, 2])):
        fid = rng.choice(sorted(files))
        fcls = files[fid]
        first = next(i for i, s in enumerate(steps) if s["obj"] == fid and s["op"] in ("file_read", "new_file"))

        def a_class():
            if fcls != "RF" or rng.random() < 0.5:
                return rng.choice(BASES[fcls] + BASES[fcls][:1])
            return rng.choice(["RA", "RB", "RC", "RD", "RE", "RG"])

        p = rng.randrange(first + 1, len(steps) + 1)
        steps.insert(p, {"obj": nid, "op": "list_query", "near": fid, "fcls": fcls, "cls": a_class(), "via": rng.choice(["get", "get", "of"]), "edits": [rng.choice(EDITS) for _ in range(rng.randrange(0, 3))]})
        for _ in range(rng.randrange(0, 3)):
            steps.insert(rng.randrange(p + 1, len(steps) + 1), {"obj": nid, "op": "list_edit", "fcls": fcls, "edit": rng.choice(EDITS)})
        if fid not in travel and rng.random() < 0.3:
            # (only files none of whose elements travels: a travelling element must still be where the program expects it)
            steps.insert(rng.randrange(p + 1, len(steps) + 1), {"obj": fid, "op": "file_remove_type", "cls": a_class()})
        nid += 1
    return {**case, "steps": steps}


def corpus_cases():
    d = Path(__file__).resolve().parent.parent.parent / "corpus" / PROP
    out = []
    if d.exists():
        for f in sorted(d.glob("*.json")):
            j = json.loads(f.read_text())
            out.append(j["case"] if "case" in j else j)
    return out


def chunks(tier, seed):
    ch = [{"kind": "corpus"}, {"kind": "defaults"}]
    nrand = {"quick": 1600, "thorough": 160000}.get(tier, 5000)
    per = max(1, nrand // 16)
    for i in range(16):
        ch.append({"kind": "random", "seed": seed * 1000 + i, "n": per})
    return ch


def cases_of(chunk):
    if chunk["kind"] == "corpus":
        yield from corpus_cases()
    elif chunk["kind"] == "defaults":
        yield {"steps": [], "defaults": True}
        for cls in ("RF", "BF", "SF"):
            yield {"steps": [{"obj": 0, "op": "new_file", "cls": cls}, {"obj": 1, "op": "new_file", "cls": cls}, {"obj": 0, "op": "file_append", "cls": "dflt", "fcls": cls, "text": "x\n"}, {"obj": 1, "op": "file_write"}], "defaults": True}
    else:
        rng = random.Random(chunk["seed"])
        for _ in range(chunk["n"]):
            yield random_case(rng)


def shrinks(case):
    s = case["steps"]
    for i in range(len(s) - 1, -1, -1):
        yield {**case, "steps": s[:i] + s[i + 1 :]}
    if case.get("defaults") and s:
        yield {**case, "defaults": False}
        yield {"steps": [], "defaults": True}
