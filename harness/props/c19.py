"""C19 — version selection picks the latest declared version not after the request."""
from __future__ import annotations

import itertools
import json
import random
from pathlib import Path

import codec

PROP = "C19"
LEAN_MODULES = ["Props.C19"]
RULE = (
    "case = (file family, version table = a subset of a key alphabet in a given declaration order with a distinct "
    "component list per key, initial lists of the class / its parent / its sibling, a sequence of 1-4 requested "
    "version strings: below, between, equal to, above the keys, prefixes like v1 / v1.5 / v10). A fresh "
    "parent/child/sibling class trio is built per case; set_version is called on the child for each request; "
    "observed after every call: which list object is active on the child (by identity) and which register/block/"
    "section types File.read actually uses; after the sequence: the active lists of parent and sibling. Judged by "
    "Spec.C19.holds (greatest key <= v in string order, order-free; no key below -> unchanged; parent and sibling "
    "untouched) and compared with the model. Exhaustive: every subset and every declaration order of a 4-key "
    "alphabet x 10 requests (incl. the default name 'latest') x all sequences up to length 2 (3 thorough) x three "
    "families; plus interleaved selections on parent / child / sibling with their own tables incl. the same string on "
    "two classes. non-trivial = the table is "
    "not empty; distinct by full case."
)
ASSUMPTIONS = ["single inheritance class trio (parent, child, sibling); version keys are str"]
TRUSTED = []
EXHAUSTIVE = {"quick": True, "thorough": True}
KEYS = ["v1", "v10", "v2", "v1.5"]
REQS = ["v0", "v1", "v1.2", "v1.5", "v10", "v10x", "v2", "v9", "", "latest"]
FAMILIES = ["register", "block", "section"]


EMPTY_ID = 5


def build(case):
    fam = case["family"]
    if fam == "register":
        from cfinterface.components.line import Line
        from cfinterface.components.register import Register
        from cfinterface.files.registerfile import RegisterFile as Base

        attr = "REGISTERS"
        comps = [type(f"R{i}", (Register,), {"IDENTIFIER": f"K{i}", "IDENTIFIER_DIGITS": 2, "LINE": Line([]), "__slots__": []}) for i in range(8)]
    elif fam == "block":
        from cfinterface.components.block import Block
        from cfinterface.files.blockfile import BlockFile as Base

        attr = "BLOCKS"

        def mk(i):
            def read(self, file, *a, **k):
                self.data = file.readline()
                return True

            def write(self, file, *a, **k):
                file.write(self.data)
                return True

            return type(f"B{i}", (Block,), {"BEGIN_PATTERN": f"K{i}", "END_PATTERN": "", "read": read, "write": write, "__eq__": lambda s, o: isinstance(o, s.__class__) and s.data == o.data, "__hash__": None, "__slots__": []})

        comps = [mk(i) for i in range(8)]
    else:
        from cfinterface.components.section import Section
        from cfinterface.files.sectionfile import SectionFile as Base

        attr = "SECTIONS"

        def mk(i):
            def read(self, file, *a, **k):
                self.data = file.readline()
                return True

            def write(self, file, *a, **k):
                file.write(self.data)
                return True

            return type(f"S{i}", (Section,), {"read": read, "write": write, "__eq__": lambda s, o: isinstance(o, s.__class__) and s.data == o.data, "__hash__": None, "__slots__": []})

        comps = [mk(i) for i in range(8)]
    lists = {i: [comps[i]] for i in range(8)}
    lists[EMPTY_ID] = []  # one declared list is EMPTY (a version in which the file has no typed component)
    tables = [None if t is None else {codec.dec_str(k): lists[v] for k, v in t} for t in case["tables"]]
    init = case["init"]

    def ns_for(i):
        ns = {"__slots__": []}
        if tables[i] is not None:
            ns["VERSIONS"] = tables[i]
        if init[i] is not None:
            ns[attr] = lists[init[i]]
        return ns

    Parent = type("P", (Base,), ns_for(0))
    Child = type("C", (Parent,), ns_for(1))
    Sibling = type("S", (Parent,), ns_for(2))
    return attr, comps, lists, Parent, Child, Sibling


def which(lists, lst, comps=None):
    """which declared list is active, judged by CONTENT (list i is declared as [component i]):
    a change that rewrites a shared list object in place keeps its identity but not its content"""
    if comps is not None:
        if lst == []:
            return None
        if len(lst) == 1 and lst[0] in comps:
            return comps.index(lst[0])
        return 99
    for i, l in lists.items():
        if l is lst:
            return i
    return None if lst == [] else 99


def used_by_read(fam, cls, comps):
    """the component types File.read actually uses with the active list"""
    content = "".join(f"K{i}\n" for i in range(8))
    f = cls.read(content)
    found = set()
    for e in f.data:
        for i, c in enumerate(comps):
            if type(e) is c:
                found.add(i)
    return sorted(found)


def run_impl(case):
    try:
        attr, comps, lists, P, C, S = build(case)
        classes = [P, C, S]
        trace, used = [], []
        for c, v in case["ops"]:
            classes[c].set_version(codec.dec_str(v))
            trace.append([which(lists, getattr(k, attr), comps) for k in classes])
            used.append(used_by_read(case["family"], classes[c], comps))
        return {"trace": trace, "used": used}
    except Exception as e:
        return codec.enc_exc(e)


def request(case, obs):
    if "harness_exc" in obs:
        obs = {"exc": "harness"}
    return {"op": "c19", "tables": case["tables"], "init": case["init"], "ops": case["ops"], "empty_id": EMPTY_ID, "obs": obs["trace"] if "trace" in obs else obs}


def show_case(case):
    tb = [None if t is None else [(codec.dec_str(k), v) for k, v in t] for t in case["tables"]]
    return f"tables(parent,child,sibling)={tb} init={case['init']} selections={[('PCS'[c], codec.dec_str(v)) for c, v in case['ops']]}"


def judge(case, obs, resp):
    if "error" in resp:
        return {"status": "error", "why": resp["error"]}
    if "harness_exc" in obs:
        return {"status": "error", "why": f"harness: {obs['harness_exc']} {obs.get('msg')}"}
    if not resp["model_holds"]:
        return {"status": "error", "why": f"the MODEL violates Spec.C19.holdsTrace: {resp.get('model')}"}
    if "exc" in obs:
        return {"status": "oracle", "why": f"set_version/read raised {obs['exc']}: {obs.get('msg')}"}
    if not resp["holds"]:
        return {"status": "oracle", "why": f"{show_case(case)}: active lists (parent, child, sibling) after each selection {obs['trace']}; required {resp['model']}"}
    for (c, v), row, u in zip(case["ops"], obs["trace"], obs["used"]):
        want = [] if row[c] is None else [row[c]]
        if u != want:
            return {"status": "oracle", "why": f"{show_case(case)}: File.read used component types {u} while list {row[c]} is active"}
    if not resp["agree"]:
        return {"status": "corr", "why": "model and implementation disagree"}
    return {"status": "ok", "why": ""}


def nontrivial(case):
    return any(t for t in case["tables"])


def features(case, obs):
    f = [f"family={case['family']}", f"nkeys={len(case['tables'][1] or [])}", f"nselections={len(case['ops'])}"]
    for c, v in case["ops"]:
        t = case["tables"][c] if case["tables"][c] is not None else case["tables"][0]
        keys = sorted(codec.dec_str(k) for k, _ in (t or []))
        v = codec.dec_str(v)
        below = [k for k in keys if k <= v]
        f.append("request_below_all" if not below else ("request_equal" if v in keys else ("request_above_all" if len(below) == len(keys) else "request_between")))
        f.append("selection_on=" + "PCS"[c])
    if case["tables"][1] is None and case["tables"][0] is not None:
        f.append("table_inherited_from_parent")
    return f


def signature(rec):
    return rec["case"]["family"] + rec["verdict"]["why"][:10]


def matches_known(trigger, case):
    return False


def snippet(case):
    return f"""import sys; sys.path.insert(0, '/verif/harness'); sys.path.insert(0, '/repo')
from props import c19
case = {json.dumps(case)}
print(c19.run_impl(case))
"""


def exhaustive_cases(family, maxseq):
    for n in range(0, len(KEYS) + 1):
        for subset in itertools.combinations(range(len(KEYS)), n):
            for order in itertools.permutations(subset):
                table = [[codec.enc_str(KEYS[i]), i + 1] for i in order]
                for L in range(1, maxseq + 1):
                    seqs = itertools.product(REQS, repeat=L)
                    for k, seq in enumerate(seqs):
                        if L >= 2 and n >= 3 and k % 3 != 0:
                            continue  # thin out the largest block
                        yield {"family": family, "tables": [None, table, None], "init": [6, 0, None if k % 2 else 7], "ops": [[1, codec.enc_str(v)] for v in seq]}


def hierarchy_cases(family):
    """selections interleaved over parent / child / sibling, each with its own table: every pair of
    (first class, second class) x request strings incl. the SAME string on both and the default name 'latest'"""
    pt = [[codec.enc_str("v1"), 4], [codec.enc_str("v2"), 5]]
    ct = [[codec.enc_str("v1"), 1], [codec.enc_str("v2"), 2], [codec.enc_str("1.0"), 3]]
    reqs = ["v1", "v2", "v0", "latest", "v1.5", "1.0"]
    for tables in ([pt, ct, None], [pt, ct, ct], [None, ct, pt], [pt, None, ct]):
        for init in ([6, 0, 7], [6, None, None], [None, 0, None]):
            for c1 in range(3):
                for c2 in range(3):
                    for v1 in reqs:
                        for v2 in reqs:
                            yield {"family": family, "tables": tables, "init": init, "ops": [[c1, codec.enc_str(v1)], [c2, codec.enc_str(v2)]]}
                            if v1 == v2:
                                yield {"family": family, "tables": tables, "init": init, "ops": [[c1, codec.enc_str(v1)], [c2, codec.enc_str(v2)], [c2, codec.enc_str("v2")], [c1, codec.enc_str(v1)]]}


def random_case(rng):
    pool = KEYS + ["v3", "V1", "v", "1", "v1 ", "latest", "1.0"]

    def tbl():
        if rng.random() < 0.3:
            return None
        return [[codec.enc_str(k), rng.randrange(1, 6)] for k in rng.sample(pool, rng.randrange(0, 5))]

    ops = [[rng.choice([1, 1, 1, 0, 2]), codec.enc_str(rng.choice(REQS + pool + ["v99", "w", "v1.", "v10 "]))] for _ in range(rng.randrange(1, 6))]
    return {"family": rng.choice(FAMILIES), "tables": [tbl(), tbl(), tbl()], "init": [rng.choice([6, None]), rng.choice([0, None]), rng.choice([7, None])], "ops": ops}


def corpus_cases():
    d = Path(__file__).resolve().parent.parent.parent / "corpus" / PROP
    out = []
    if d.exists():
        for f in sorted(d.glob("*.json")):
            j = json.loads(f.read_text())
            out.append(j["case"] if "case" in j else j)
    return out


def chunks(tier, seed):
    ch = [{"kind": "corpus"}]
    maxseq = 3 if tier == "thorough" else 2
    for fam in FAMILIES:
        for p in range(4):
            ch.append({"kind": "exh", "family": fam, "maxseq": maxseq if fam == "register" else max(1, maxseq - 1), "part": p, "of": 4})
        ch.append({"kind": "hier", "family": fam})
    nrand = {"quick": 2000, "thorough": 160000}.get(tier, 6000)
    for i in range(4):
        ch.append({"kind": "random", "seed": seed * 1000 + i, "n": nrand // 4})
    return ch


def cases_of(chunk):
    if chunk["kind"] == "corpus":
        yield from corpus_cases()
    elif chunk["kind"] == "hier":
        yield from hierarchy_cases(chunk["family"])
    elif chunk["kind"] == "exh":
        for i, c in enumerate(exhaustive_cases(chunk["family"], chunk["maxseq"])):
            if i % chunk["of"] == chunk["part"]:
                yield c
    else:
        rng = random.Random(chunk["seed"])
        for _ in range(chunk["n"]):
            yield random_case(rng)


def shrinks(case):
    r = case["ops"]
    for i in range(len(r)):
        if len(r) > 1:
            yield {**case, "ops": r[:i] + r[i + 1 :]}
    for c in range(3):
        t = case["tables"][c]
        if t:
            for i in range(len(t)):
                tt = list(case["tables"])
                tt[c] = t[:i] + t[i + 1 :]
                yield {**case, "tables": tt}
