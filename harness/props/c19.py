"""C19 — version selection picks the latest declared version not after the request."""
from __future__ import annotations

import itertools
import json
import random
from pathlib import Path

import codec

PROP = "C19"
LEAN_MODULES = ["Props.C19"]
RULE = (
    "case = (file family, version table = a subset of a key alphabet in a given declaration order with a distinct "
    "component list per key, initial lists of the class / its parent / its sibling, a sequence of 1-4 requested "
    "version strings: below, between, equal to, above the keys, prefixes like v1 / v1.5 / v10). A fresh "
    "parent/child/sibling class trio is built per case; set_version is called on the child for each request; "
    "observed after every call: which list object is active on the child (by identity) and which register/block/"
    "section types File.read actually uses; after the sequence: the active lists of parent and sibling. Judged by "
    "Spec.C19.holds (greatest key <= v in string order, order-free; no key below -> unchanged; parent and sibling "
    "untouched) and compared with the model. Exhaustive: every subset and every declaration order of a 4-key "
    "alphabet x 9 requests x all sequences up to length 2 (3 thorough) x three families. non-trivial = the table is "
    "not empty; distinct by full case."
)
ASSUMPTIONS = ["single inheritance class trio (parent, child, sibling); version keys are str"]
TRUSTED = []
EXHAUSTIVE = {"quick": True, "thorough": True}
KEYS = ["v1", "v10", "v2", "v1.5"]
REQS = ["v0", "v1", "v1.2", "v1.5", "v10", "v10x", "v2", "v9", ""]
FAMILIES = ["register", "block", "section"]


def build(case):
    fam = case["family"]
    if fam == "register":
        from cfinterface.components.line import Line
        from cfinterface.components.register import Register
        from cfinterface.files.registerfile import RegisterFile as Base

        attr = "REGISTERS"
        comps = [type(f"R{i}", (Register,), {"IDENTIFIER": f"K{i}", "IDENTIFIER_DIGITS": 2, "LINE": Line([]), "__slots__": []}) for i in range(8)]
    elif fam == "block":
        from cfinterface.components.block import Block
        from cfinterface.files.blockfile import BlockFile as Base

        attr = "BLOCKS"

        def mk(i):
            def read(self, file, *a, **k):
                self.data = file.readline()
                return True

            def write(self, file, *a, **k):
                file.write(self.data)
                return True

            return type(f"B{i}", (Block,), {"BEGIN_PATTERN": f"K{i}", "END_PATTERN": "", "read": read, "write": write, "__eq__": lambda s, o: isinstance(o, s.__class__) and s.data == o.data, "__hash__": None, "__slots__": []})

        comps = [mk(i) for i in range(8)]
    else:
        from cfinterface.components.section import Section
        from cfinterface.files.sectionfile import SectionFile as Base

        attr = "SECTIONS"

        def mk(i):
            def read(self, file, *a, **k):
                self.data = file.readline()
                return True

            def write(self, file, *a, **k):
                file.write(self.data)
                return True

            return type(f"S{i}", (Section,), {"read": read, "write": write, "__eq__": lambda s, o: isinstance(o, s.__class__) and s.data == o.data, "__hash__": None, "__slots__": []})

        comps = [mk(i) for i in range(8)]
    lists = {i: [comps[i]] for i in range(8)}
    pns = {"__slots__": []}
    if case.get("parent_init") is not None:
        pns[attr] = lists[case["parent_init"]]
    table = {codec.dec_str(k): lists[v] for k, v in case["table"]}
    if case.get("table_on_parent"):
        pns["VERSIONS"] = table
    Parent = type("P", (Base,), pns)
    cns = {"__slots__": []}
    if not case.get("table_on_parent"):
        cns["VERSIONS"] = table
    if case.get("init") is not None:
        cns[attr] = lists[case["init"]]
    Child = type("C", (Parent,), cns)
    sns = {"__slots__": []}
    if case.get("sibling_init") is not None:
        sns[attr] = lists[case["sibling_init"]]
    Sibling = type("S", (Parent,), sns)
    return attr, comps, lists, Parent, Child, Sibling


def which(lists, lst):
    for i, l in lists.items():
        if l is lst:
            return i
    return None if lst == [] else 99


def used_by_read(fam, cls, comps):
    """the component types File.read actually uses with the active list"""
    content = "".join(f"K{i}\n" for i in range(8))
    f = cls.read(content)
    found = set()
    for e in f.data:
        for i, c in enumerate(comps):
            if type(e) is c:
                found.add(i)
    return sorted(found)


def run_impl(case):
    try:
        attr, comps, lists, P, C, S = build(case)
        aa, used = [], []
        for v in case["requests"]:
            C.set_version(codec.dec_str(v))
            aa.append(which(lists, getattr(C, attr)))
            used.append(used_by_read(case["family"], C, comps))
        return {"active_after": aa, "parent_active": which(lists, getattr(P, attr)), "sibling_active": which(lists, getattr(S, attr)), "used": used}
    except Exception as e:
        return codec.enc_exc(e)


def request(case, obs):
    if "harness_exc" in obs:
        obs = {"exc": "harness"}
    o = {k: v for k, v in obs.items() if k != "used"}
    return {"op": "c19", "table": case["table"], "init": case.get("init"), "parent_init": case.get("parent_init"), "sibling_init": case.get("sibling_init"), "table_on_parent": bool(case.get("table_on_parent")), "requests": case["requests"], "obs": o}


def judge(case, obs, resp):
    if "error" in resp:
        return {"status": "error", "why": resp["error"]}
    if "harness_exc" in obs:
        return {"status": "error", "why": f"harness: {obs['harness_exc']} {obs.get('msg')}"}
    if not resp["model_holds"]:
        return {"status": "error", "why": f"the MODEL violates Spec.C19.holds: {resp.get('model')}"}
    if "exc" in obs:
        return {"status": "oracle", "why": f"set_version/read raised {obs['exc']}: {obs.get('msg')}"}
    tbl = [(codec.dec_str(k), v) for k, v in case["table"]]
    reqs = [codec.dec_str(v) for v in case["requests"]]
    if not resp["holds"]:
        return {"status": "oracle", "why": f"table {tbl} requests {reqs}: active lists {obs['active_after']} parent {obs['parent_active']} sibling {obs['sibling_active']}; required {resp['model']}"}
    # the list File.read uses is the active one (sections are read unconditionally, blocks/registers by dispatch)
    for a, u in zip(obs["active_after"], obs["used"]):
        want = [] if a is None else [a]
        if case["family"] == "section":
            ok = u == want
        else:
            ok = u == want
        if not ok:
            return {"status": "oracle", "why": f"table {tbl} requests {reqs}: File.read used component types {u} while list {a} is active"}
    if not resp["agree"]:
        return {"status": "corr", "why": "model and implementation disagree"}
    return {"status": "ok", "why": ""}


def nontrivial(case):
    return len(case["table"]) > 0


def features(case, obs):
    f = [f"family={case['family']}", f"nkeys={len(case['table'])}", f"nrequests={len(case['requests'])}"]
    keys = sorted(codec.dec_str(k) for k, _ in case["table"])
    for v in case["requests"]:
        v = codec.dec_str(v)
        below = [k for k in keys if k <= v]
        f.append("request_below_all" if not below else ("request_equal" if v in keys else ("request_above_all" if len(below) == len(keys) else "request_between")))
    if case.get("table_on_parent"):
        f.append("table_inherited_from_parent")
    return f


def signature(rec):
    return rec["case"]["family"] + rec["verdict"]["why"][:10]


def matches_known(trigger, case):
    return False


def snippet(case):
    return f"""import sys; sys.path.insert(0, '/verif/harness'); sys.path.insert(0, '/repo')
from props import c19
case = {json.dumps(case)}
print(c19.run_impl(case))
"""


def exhaustive_cases(family, maxseq):
    for n in range(0, len(KEYS) + 1):
        for subset in itertools.combinations(range(len(KEYS)), n):
            for order in itertools.permutations(subset):
                table = [[codec.enc_str(KEYS[i]), i + 1] for i in order]
                for L in range(1, maxseq + 1):
                    seqs = itertools.product(REQS, repeat=L)
                    for k, seq in enumerate(seqs):
                        if L >= 2 and n >= 3 and k % 3 != 0:
                            continue  # thin out the largest block
                        yield {"family": family, "table": table, "init": 0, "parent_init": 6, "sibling_init": None if k % 2 else 7, "requests": [codec.enc_str(v) for v in seq]}


def random_case(rng):
    n = rng.randrange(0, 5)
    pool = KEYS + ["v3", "V1", "v", "1", "v1 "]
    keys = rng.sample(pool, n)
    table = [[codec.enc_str(k), rng.randrange(1, 6)] for k in keys]
    reqs = [codec.enc_str(rng.choice(REQS + pool + ["v99", "w", "v1.", "v10 "])) for _ in range(rng.randrange(1, 5))]
    return {"family": rng.choice(FAMILIES), "table": table, "init": rng.choice([0, None]), "parent_init": rng.choice([6, None]), "sibling_init": rng.choice([7, None]), "table_on_parent": rng.random() < 0.25, "requests": reqs}


def corpus_cases():
    d = Path(__file__).resolve().parent.parent.parent / "corpus" / PROP
    out = []
    if d.exists():
        for f in sorted(d.glob("*.json")):
            j = json.loads(f.read_text())
            out.append(j["case"] if "case" in j else j)
    return out


def chunks(tier, seed):
    ch = [{"kind": "corpus"}]
    maxseq = 3 if tier == "thorough" else 2
    for fam in FAMILIES:
        for p in range(4):
            ch.append({"kind": "exh", "family": fam, "maxseq": maxseq if fam == "register" else max(1, maxseq - 1), "part": p, "of": 4})
    nrand = {"quick": 2000, "thorough": 40000}.get(tier, 6000)
    for i in range(4):
        ch.append({"kind": "random", "seed": seed * 1000 + i, "n": nrand // 4})
    return ch


def cases_of(chunk):
    if chunk["kind"] == "corpus":
        yield from corpus_cases()
    elif chunk["kind"] == "exh":
        for i, c in enumerate(exhaustive_cases(chunk["family"], chunk["maxseq"])):
            if i % chunk["of"] == chunk["part"]:
                yield c
    else:
        rng = random.Random(chunk["seed"])
        for _ in range(chunk["n"]):
            yield random_case(rng)


def shrinks(case):
    r = case["requests"]
    for i in range(len(r)):
        if len(r) > 1:
            yield {**case, "requests": r[:i] + r[i + 1 :]}
    t = case["table"]
    for i in range(len(t)):
        yield {**case, "table": t[:i] + t[i + 1 :]}
