"""C19 — version selection picks the latest declared version not after the request."""
from __future__ import annotations

import itertools
import json
import random
from pathlib import Path

import codec

PROP = "C19"
LEAN_MODULES = ["Props.C19"]
RULE = (
    "case = (file family, version table = a subset of a key alphabet in a given declaration order with a distinct "
    "component list per key, initial lists of the class / its parent / its sibling, a sequence of 1-4 requested "
    "version strings: below, between, equal to, above the keys, prefixes like v1 / v1.5 / v10). A fresh "
    "parent/child/sibling class trio is built per case; set_version is called on the child for each request; "
    "observed after every call: which list object is active on the child (by identity) and which register/block/"
    "section types File.read actually uses; after the sequence: the active lists of parent and sibling. Judged by "
    "Spec.C19.holds (greatest key <= v in string order, order-free; no key below -> unchanged; parent and sibling "
    "untouched) and compared with the model. Exhaustive: every subset and every declaration order of a 4-key "
    "alphabet x 10 requests (incl. the default name 'latest') x all sequences up to length 2 (3 thorough) x three "
    "families; plus interleaved selections on parent / child / sibling with their own tables incl. the same string on "
    "two classes. Tables completed AFTER the class statement: a case may state, per class, the table as the class "
    "statement has it (absent, empty, a part, all keys bound to other lists, an extra key) and how it reaches its "
    "declared content later (whole table assigned on the class / the class's own dict edited in place: keys added, "
    "deleted, re-bound), right after the class's own statement, after parent, child and sibling exist, or after "
    "leading selections with the empty request string (below every key, so they must change nothing); the model "
    "is asked with the declared (final) table only, because the law speaks of the declared versions, not of when "
    "they were declared (every subset and order of the key alphabet x every single request x way/part/moment "
    "cycling, on the child's own or the inherited parent's table; a quarter of the hierarchy cases; 28% of the "
    "random tables). Programs that change the tables BETWEEN selections: a step may assign a whole version table "
    "on a class, add / re-bind / delete a key of the table a class sees (its own or the parent's it inherits) in "
    "place, or assign the component list; the model runs the same program (Spec.C19.progTrace: every selection "
    "reads the table as it is when it is made, Props.C19.main_prog), on a grid of request pairs x eight kinds of "
    "change and in three random cases out of ten. non-trivial = the table is "
    "not empty; distinct by full case."
)
ASSUMPTIONS = ["single inheritance class trio (parent, child, sibling); version keys are str"]
TRUSTED = []
EXHAUSTIVE = {"quick": True, "thorough": True}
KEYS = ["v1", "v10", "v2", "v1.5"]
REQS = ["v0", "v1", "v1.2", "v1.5", "v10", "v10x", "v2", "v9", "", "latest"]
FAMILIES = ["register", "block", "section"]


EMPTY_ID = 5


def build(case):
    fam = case["family"]
    if fam == "register":
        from cfinterface.components.line import Line
        from cfinterface.components.register import Register
        from cfinterface.files.registerfile import RegisterFile as Base

        attr = "REGISTERS"
        comps = [type(f"R{i}", (Register,), {"IDENTIFIER": f"K{i}", "IDENTIFIER_DIGITS": 2, "LINE": Line([]), "__slots__": []}) for i in range(8)]
    elif fam == "block":
        from cfinterface.components.block import Block
        from cfinterface.files.blockfile import BlockFile as Base

        attr = "BLOCKS"

        def mk(i):
            def read(self, file, *a, **k):
                self.data = file.readline()
                return True

            def write(self, file, *a, **k):
                file.write(self.data)
                return True

            return type(f"B{i}", (Block,), {"BEGIN_PATTERN": f"K{i}", "END_PATTERN": "", "read": read, "write": write, "__eq__": lambda s, o: isinstance(o, s.__class__) and s.data == o.data, "__hash__": None, "__slots__": []})

        comps = [mk(i) for i in range(8)]
    else:
        from cfinterface.components.section import Section
        from cfinterface.files.sectionfile import SectionFile as Base

        attr = "SECTIONS"

        def mk(i):
            def read(self, file, *a, **k):
                self.data = file.readline()
                return True

            def write(self, file, *a, **k):
                file.write(self.data)
                return True

            return type(f"S{i}", (Section,), {"read": read, "write": write, "__eq__": lambda s, o: isinstance(o, s.__class__) and s.data == o.data, "__hash__": None, "__slots__": []})

        comps = [mk(i) for i in range(8)]
    lists = {i: [comps[i]] for i in range(8)}
    lists[EMPTY_ID] = []  # one declared list is EMPTY (a version in which the file has no typed component)
    def dic(t):
        return None if t is None else {codec.dec_str(k): lists[v] for k, v in t}

    tables = [dic(t) for t in case["tables"]]
    init = case["init"]
    late = late_of(case)

    def ns_for(i):
        ns = {"__slots__": []}
        if tables[i] is not None:
            if late[i] is None:
                ns["VERSIONS"] = tables[i]
            elif late[i].get("body") is not None:
                ns["VERSIONS"] = dic(late[i]["body"])  # the table as the class statement has it
        if init[i] is not None:
            ns[attr] = lists[init[i]]
        return ns

    classes = [None, None, None]
    pending = {0, 1, 2}

    def complete(i):
        """bring the table of class i to its declared final content AFTER the class statement"""
        pending.discard(i)
        if late[i] is None or tables[i] is None:
            return
        cls = classes[i]
        if late[i].get("assign") or "VERSIONS" not in cls.__dict__:
            cls.VERSIONS = dict(tables[i])  # the whole table assigned on the class
            return
        d = cls.VERSIONS  # the class's own dict, edited in place
        for k in [k for k in d if k not in tables[i]]:
            del d[k]
        for k, v in tables[i].items():
            d[k] = v

    def finish(stage):
        for i in sorted(pending):
            if late[i] is None or late[i].get("at", "all") in (("own", "all") if stage == "all" else ("own", "all", "warm")):
                complete(i)

    for i, (name, parent) in enumerate((("P", None), ("C", 0), ("S", 0))):
        classes[i] = type(name, (Base if parent is None else classes[parent],), ns_for(i))
        if late[i] is None or late[i].get("at", "all") == "own":
            complete(i)
    Parent, Child, Sibling = classes
    return attr, comps, lists, Parent, Child, Sibling, finish


def late_of(case):
    """per class: None = the version table stands complete in the class statement; else
    {"body": table in the class statement | None (no VERSIONS there), "assign": whole table assigned later (else the
    class's own dict is edited in place: keys added / deleted / re-bound), "at": "own" right after the class's own
    statement | "all" after parent, child and sibling exist | "warm" after selections with the empty request string}"""
    late = list(case.get("late") or [None, None, None])
    return [l if (l and case["tables"][i] is not None) else None for i, l in enumerate(late + [None] * 3)][:3]


def warm_possible(case):
    """the empty request string is below every key unless some table (final or in a class statement) has the key ''"""
    ts = [t for t in case["tables"] if t] + [l["body"] for l in late_of(case) if l and l.get("body")]
    return all(len(k) > 0 for t in ts for k, _ in t)


def which(lists, lst, comps=None):
    """which declared list is active, judged by CONTENT (list i is declared as [component i]):
    a change that rewrites a shared list object in place keeps its identity but not its content"""
    if comps is not None:
        if lst == []:
            return None
        if len(lst) == 1 and lst[0] in comps:
            return comps.index(lst[0])
        return 99
    for i, l in lists.items():
        if l is lst:
            return i
    return None if lst == [] else 99


def used_by_read(fam, cls, comps):
    """the component types File.read actually uses with the active list"""
    content = "".join(f"K{i}\n" for i in range(8))
    f = cls.read(content)
    found = set()
    for e in f.data:
        for i, c in enumerate(comps):
            if type(e) is c:
                found.add(i)
    return sorted(found)


def run_impl(case):
    try:
        attr, comps, lists, P, C, S, finish = build(case)
        classes = [P, C, S]
        trace, used = [], []
        finish("all")
        warm = warm_possible(case)
        for op in case["ops"]:
            if is_change(op):
                # the program changes a table or a list between two selections (ordinary class attributes)
                finish("warm")
                warm = False
                c = op[1]
                if op[0] == "assign":
                    classes[c].VERSIONS = {codec.dec_str(k): lists[v] for k, v in op[2]}
                elif op[0] == "set":
                    classes[c].VERSIONS[codec.dec_str(op[2])] = lists[op[3]]
                elif op[0] == "del":
                    classes[c].VERSIONS.pop(codec.dec_str(op[2]), None)
                elif op[0] == "active":
                    setattr(classes[c], attr, lists[op[2]])
                trace.append([which(lists, getattr(k, attr), comps) for k in classes])
                used.append(None)
                continue
            c, v = op
            if not (warm and len(v) == 0):
                finish("warm")  # leading selections with the empty request string run on the unfinished table
                warm = False
            classes[c].set_version(codec.dec_str(v))
            trace.append([which(lists, getattr(k, attr), comps) for k in classes])
            used.append(used_by_read(case["family"], classes[c], comps))
        return {"trace": trace, "used": used}
    except Exception as e:
        return codec.enc_exc(e)


def is_change(op):
    """a step of the program other than a selection: ["assign", cls, table] (VERSIONS = {...} on the class),
    ["set", cls, key, id] (VERSIONS[key] = list), ["del", cls, key], ["active", cls, id] (the component list assigned)"""
    return isinstance(op[0], str)


def show_op(op):
    if not is_change(op):
        return ("PCS"[op[0]], codec.dec_str(op[1]))
    c = "PCS"[op[1]]
    if op[0] == "assign":
        return f"{c}.VERSIONS = {[(codec.dec_str(k), v) for k, v in op[2]]}"
    if op[0] == "set":
        return f"{c}.VERSIONS[{codec.dec_str(op[2])!r}] = list {op[3]}"
    if op[0] == "del":
        return f"{c}.VERSIONS.pop({codec.dec_str(op[2])!r}, None)"
    return f"{c}.<component list> = list {op[2]}"


def request(case, obs):
    if "harness_exc" in obs:
        obs = {"exc": "harness"}
    return {"op": "c19", "tables": case["tables"], "init": case["init"], "ops": case["ops"], "empty_id": EMPTY_ID, "obs": obs["trace"] if "trace" in obs else obs}


def show_case(case):
    tb = [None if t is None else [(codec.dec_str(k), v) for k, v in t] for t in case["tables"]]
    txt = f"tables(parent,child,sibling)={tb} init={case['init']} program={[show_op(op) for op in case['ops']]}"
    for i, l in enumerate(late_of(case)):
        if l:
            body = None if l.get("body") is None else [(codec.dec_str(k), v) for k, v in l["body"]]
            when = {"own": "right after its class statement", "all": "after all three classes exist", "warm": "after the leading selections with the empty request string"}[l.get("at", "all")]
            how = "assigned as a whole" if (l.get("assign") or body is None) else "completed in place (keys added / deleted / re-bound)"
            txt += f"; the table of {['parent', 'child', 'sibling'][i]} {'was absent from' if body is None else f'stood as {body} in'} the class statement and was {how} {when}"
    return txt


def judge(case, obs, resp):
    if "error" in resp:
        return {"status": "error", "why": resp["error"]}
    if "harness_exc" in obs:
        return {"status": "error", "why": f"harness: {obs['harness_exc']} {obs.get('msg')}"}
    if not resp["model_holds"]:
        return {"status": "error", "why": f"the MODEL violates Spec.C19.holdsTrace: {resp.get('model')}"}
    if "exc" in obs:
        return {"status": "oracle", "why": f"set_version/read raised {obs['exc']}: {obs.get('msg')}"}
    if not resp["holds"]:
        return {"status": "oracle", "why": f"{show_case(case)}: active lists (parent, child, sibling) after each selection {obs['trace']}; required {resp['model']}"}
    for op, row, u in zip(case["ops"], obs["trace"], obs["used"]):
        if is_change(op):
            continue
        c = op[0]
        want = [] if row[c] is None else [row[c]]
        if u != want:
            return {"status": "oracle", "why": f"{show_case(case)}: File.read used component types {u} while list {row[c]} is active"}
    if not resp["agree"]:
        return {"status": "corr", "why": "model and implementation disagree"}
    return {"status": "ok", "why": ""}


def nontrivial(case):
    return any(t for t in case["tables"])


def features(case, obs):
    f = [f"family={case['family']}", f"nkeys={len(case['tables'][1] or [])}", f"nselections={len(case['ops'])}"]
    changes = [op for op in case["ops"] if is_change(op)]
    for op in changes:
        f.append("between_selections=" + op[0])
    if changes:
        f.append("program_changes_tables")
    for c, v in [op for op in case["ops"] if not is_change(op)]:
        t = case["tables"][c] if case["tables"][c] is not None else case["tables"][0]
        keys = sorted(codec.dec_str(k) for k, _ in (t or []))
        v = codec.dec_str(v)
        below = [k for k in keys if k <= v]
        f.append("request_below_all" if not below else ("request_equal" if v in keys else ("request_above_all" if len(below) == len(keys) else "request_between")))
        f.append("selection_on=" + "PCS"[c])
    if case["tables"][1] is None and case["tables"][0] is not None:
        f.append("table_inherited_from_parent")
    for i, l in enumerate(late_of(case)):
        if l:
            f.append("table_completed_after_class_statement=" + ("assigned" if (l.get("assign") or l.get("body") is None) else "in_place"))
            f.append("table_completed_at=" + l.get("at", "all"))
    return f


def signature(rec):
    return rec["case"]["family"] + rec["verdict"]["why"][:10]


def matches_known(trigger, case):
    return False


def snippet(case):
    return f"""import sys; sys.path.insert(0, '/verif/harness'); sys.path.insert(0, '/repo')
from props import c19
case = {json.dumps(case)}
print(c19.run_impl(case))
"""


def exhaustive_cases(family, maxseq):
    for n in range(0, len(KEYS) + 1):
        for subset in itertools.combinations(range(len(KEYS)), n):
            for order in itertools.permutations(subset):
                table = [[codec.enc_str(KEYS[i]), i + 1] for i in order]
                for L in range(1, maxseq + 1):
                    seqs = itertools.product(REQS, repeat=L)
                    for k, seq in enumerate(seqs):
                        if L >= 2 and n >= 3 and k % 3 != 0:
                            continue  # thin out the largest block
                        yield {"family": family, "tables": [None, table, None], "init": [6, 0, None if k % 2 else 7], "ops": [[1, codec.enc_str(v)] for v in seq]}


def hierarchy_cases(family):
    """selections interleaved over parent / child / sibling, each with its own table: every pair of
    (first class, second class) x request strings incl. the SAME string on both and the default name 'latest'"""
    pt = [[codec.enc_str("v1"), 4], [codec.enc_str("v2"), 5]]
    ct = [[codec.enc_str("v1"), 1], [codec.enc_str("v2"), 2], [codec.enc_str("1.0"), 3]]
    reqs = ["v1", "v2", "v0", "latest", "v1.5", "1.0"]
    n_ = 0
    for tables in ([pt, ct, None], [pt, ct, ct], [None, ct, pt], [pt, None, ct]):
        for init in ([6, 0, 7], [6, None, None], [None, 0, None]):
            for c1 in range(3):
                for c2 in range(3):
                    for v1 in reqs:
                        for v2 in reqs:
                            yield {"family": family, "tables": tables, "init": init, "ops": [[c1, codec.enc_str(v1)], [c2, codec.enc_str(v2)]]}
                            if v1 == v2:
                                yield {"family": family, "tables": tables, "init": init, "ops": [[c1, codec.enc_str(v1)], [c2, codec.enc_str(v2)], [c2, codec.enc_str("v2")], [c1, codec.enc_str(v1)]]}
                            n_ += 1
                            if n_ % 4 == 0:  # the same with the tables completed after the class statements
                                late = [None if t is None else late_variant(t, HOWS[(n_ // 4 + i) % 5], (n_ // 20) % 2, ATS[(n_ // 4 + 2 * i) % 3]) for i, t in enumerate(tables)]
                                warm = [[c1, []]] if any(l and l["at"] == "warm" for l in late) else []
                                yield {"family": family, "tables": tables, "init": init, "late": late, "ops": warm + [[c1, codec.enc_str(v1)], [c2, codec.enc_str(v2)]]}


HOWS = ["keys", "assign_none", "assign", "rebind", "drop"]
ATS = ["own", "all", "warm"]
EXTRA = ["v1.1", "v3", "a"]


def late_variant(table, how, k, at):
    """one way in which `table` comes to stand on a class AFTER the class statement (the final table is `table` in all)"""
    k = min(k, len(table))
    if how == "assign_none":
        return {"body": None, "assign": True, "at": at}
    if how == "assign":
        return {"body": table[:k], "assign": True, "at": at}
    if how == "rebind":  # all keys there from the start, bound to other lists
        return {"body": [[key, v % 5 + 1] for key, v in table[k:]] + table[:k], "assign": False, "at": at}
    if how == "drop":  # a key that is deleted again, next to a part of the table
        have = {codec.dec_str(key) for key, _ in table}
        extra = [[codec.enc_str(e), 3] for e in EXTRA if e not in have][:1]
        return {"body": table[:k] + extra, "assign": False, "at": at}
    return {"body": table[:k], "assign": False, "at": at}


def late_cases(family):
    """tables that are completed AFTER the class statement: every subset and declaration order of the key alphabet x
    every single request (and a thinned set of pairs), the way / the part present in the class statement / the
    moment of completion cycling over the cases; the table on the child itself or on the parent (the child inherits)"""
    n_ = 0
    for n in range(1, len(KEYS) + 1):
        for subset in itertools.combinations(range(len(KEYS)), n):
            for order in itertools.permutations(subset):
                table = [[codec.enc_str(KEYS[i]), i + 1] for i in order]
                seqs = [[v] for v in REQS] + [[a, b] for j, (a, b) in enumerate(itertools.product(REQS, repeat=2)) if j % 7 == n_ % 7]
                for seq in seqs:
                    for rep in range(2 if len(seq) == 1 else 1):
                        n_ += 1
                        how, at, k = HOWS[n_ % 5], ATS[(n_ // 5) % 3], (n_ // 15) % n
                        lv = late_variant(table, how, k, at)
                        ops = ([""] if at == "warm" else []) + seq
                        if n_ % 4 == 0:  # the table is the parent's; selections on the child that inherits it, and on the parent
                            yield {"family": family, "tables": [table, None, None], "init": [6, 0 if n_ % 8 else None, 7], "late": [lv, None, None],
                                   "ops": [[1 if j % 2 == 0 else 0, codec.enc_str(v)] for j, v in enumerate(ops)]}
                        else:
                            yield {"family": family, "tables": [None, table, None], "init": [6, 0, None if n_ % 2 else 7], "late": [None, lv, None],
                                   "ops": [[1, codec.enc_str(v)] for v in ops]}


def with_changes(case, rng, n):
    """inserts n changes of the tables / lists at random places of the program (not before the first step of a
    case whose tables are completed late). An in-place edit is made only where the class sees a table of its own
    or of the parent (never the framework's own empty dict, which every file class of the process shares)."""
    ops = list(case["ops"])
    has = [t is not None for t in case["tables"]]  # which classes have VERSIONS bound on themselves
    pool = KEYS + ["v3", "v1.1", "a"]
    out = []
    places = sorted(rng.randrange(0, len(ops) + 1) for _ in range(n))
    j = 0
    for i in range(len(ops) + 1):
        while j < len(places) and places[j] == i:
            j += 1
            c = rng.choice([1, 1, 0, 2])
            sees = has[c] or (c != 0 and has[0])
            kind = rng.choice(["assign", "set", "set", "del", "active"]) if sees else rng.choice(["assign", "assign", "active"])
            if kind == "assign":
                out.append(["assign", c, [[codec.enc_str(k), rng.randrange(0, 8)] for k in rng.sample(pool, rng.randrange(0, 4))]])
                has[c] = True
            elif kind == "set":
                out.append(["set", c, codec.enc_str(rng.choice(pool)), rng.randrange(0, 8)])
            elif kind == "del":
                out.append(["del", c, codec.enc_str(rng.choice(pool))])
            else:
                out.append(["active", c, rng.randrange(0, 8)])
        if i < len(ops):
            out.append(ops[i])
    return {**{k: v for k, v in case.items() if k != "late"}, "ops": out}


def program_cases(family):
    """a table changed BETWEEN two selections that both find a key: every pair of requests x the ways of changing
    the table the second selection reads (a new table assigned on the class, a key added in place, a key deleted, a
    key re-bound), on the child's own table and on the parent's table the child inherits"""
    base = [[codec.enc_str("v1"), 1], [codec.enc_str("v2"), 2]]
    changes = [
        lambda c: ["assign", c, [[codec.enc_str("v1"), 3], [codec.enc_str("v1.5"), 4]]],
        lambda c: ["assign", c, []],
        lambda c: ["set", c, codec.enc_str("v1.5"), 4],
        lambda c: ["set", c, codec.enc_str("v2"), 6],
        lambda c: ["set", c, codec.enc_str("v0"), 3],
        lambda c: ["del", c, codec.enc_str("v2")],
        lambda c: ["del", c, codec.enc_str("v1")],
        lambda c: ["active", c, 6],
    ]
    reqs = ["v0", "v1", "v1.5", "v1.7", "v2", "v9"]
    for own in (True, False):
        tables = [None, base, None] if own else [base, None, None]
        for ch in changes:
            for who in ((1,) if own else (0, 1)):
                for v1 in reqs:
                    for v2 in reqs:
                        yield {"family": family, "tables": tables, "init": [6, 0, 7], "ops": [[1, codec.enc_str(v1)], ch(who), [1, codec.enc_str(v2)], [0, codec.enc_str(v2)], [2, codec.enc_str(v1)]]}


def random_case(rng):
    pool = KEYS + ["v3", "V1", "v", "1", "v1 ", "latest", "1.0"]

    def tbl():
        if rng.random() < 0.3:
            return None
        return [[codec.enc_str(k), rng.randrange(1, 6)] for k in rng.sample(pool, rng.randrange(0, 5))]

    ops = [[rng.choice([1, 1, 1, 0, 2]), codec.enc_str(rng.choice(REQS + pool + ["v99", "w", "v1.", "v10 "]))] for _ in range(rng.randrange(1, 6))]
    case = {"family": rng.choice(FAMILIES), "tables": [tbl(), tbl(), tbl()], "init": [rng.choice([6, None]), rng.choice([0, None]), rng.choice([7, None])], "ops": ops}
    if rng.random() < 0.4:  # some of the tables come to stand on their class after the class statement
        case["late"] = [late_variant(t, rng.choice(HOWS), rng.randrange(0, 4), rng.choice(ATS)) if (t is not None and rng.random() < 0.7) else None for t in case["tables"]]
        if any(l and l["at"] == "warm" for l in case["late"]) and rng.random() < 0.7:
            case["ops"] = [[rng.choice([0, 1, 2]), []] for _ in range(rng.randrange(1, 3))] + ops
    elif rng.random() < 0.5:  # the program changes tables / lists between its selections
        case = with_changes(case, rng, rng.randrange(1, 4))
    return case


def corpus_cases():
    d = Path(__file__).resolve().parent.parent.parent / "corpus" / PROP
    out = []
    if d.exists():
        for f in sorted(d.glob("*.json")):
            j = json.loads(f.read_text())
            out.append(j["case"] if "case" in j else j)
    return out


def chunks(tier, seed):
    ch = [{"kind": "corpus"}]
    maxseq = 3 if tier == "thorough" else 2
    for fam in FAMILIES:
        for p in range(4):
            ch.append({"kind": "exh", "family": fam, "maxseq": maxseq if fam == "register" else max(1, maxseq - 1), "part": p, "of": 4})
        ch.append({"kind": "hier", "family": fam})
        ch.append({"kind": "late", "family": fam})
        ch.append({"kind": "prog", "family": fam})
    nrand = {"quick": 2000, "thorough": 160000}.get(tier, 6000)
    for i in range(4):
        ch.append({"kind": "random", "seed": seed * 1000 + i, "n": nrand // 4})
    return ch


def cases_of(chunk):
    if chunk["kind"] == "corpus":
        yield from corpus_cases()
    elif chunk["kind"] == "hier":
        yield from hierarchy_cases(chunk["family"])
    elif chunk["kind"] == "late":
        yield from late_cases(chunk["family"])
    elif chunk["kind"] == "prog":
        yield from program_cases(chunk["family"])
    elif chunk["kind"] == "exh":
        for i, c in enumerate(exhaustive_cases(chunk["family"], chunk["maxseq"])):
            if i % chunk["of"] == chunk["part"]:
                yield c
    else:
        rng = random.Random(chunk["seed"])
        for _ in range(chunk["n"]):
            yield random_case(rng)


def shrinks(case):
    r = case["ops"]
    for i in range(len(r)):
        if len(r) > 1:
            yield {**case, "ops": r[:i] + r[i + 1 :]}
    for c in range(3):
        t = case["tables"][c]
        if t:
            for i in range(len(t)):
                tt = list(case["tables"])
                tt[c] = t[:i] + t[i + 1 :]
                yield {**case, "tables": tt}
    for i, op in enumerate(r):
        if is_change(op) and op[0] == "assign":
            for j in range(len(op[2])):
                yield {**case, "ops": r[:i] + [["assign", op[1], op[2][:j] + op[2][j + 1 :]]] + r[i + 1 :]}
    late = late_of(case)
    if any(late):
        yield {k: v for k, v in case.items() if k != "late"}
        for c in range(3):
            if late[c]:
                yield {**case, "late": [None if i == c else l for i, l in enumerate(late)]}
                if late[c].get("at", "all") != "own":
                    yield {**case, "late": [{**l, "at": "own"} if i == c else l for i, l in enumerate(late)]}
                b = late[c].get("body")
                for i in range(len(b or [])):
                    yield {**case, "late": [{**l, "body": b[:i] + b[i + 1 :]} if j == c else l for j, l in enumerate(late)]}
