"""C05 — register file data round trip: read(write(D)) equals D."""
from __future__ import annotations

import json
import random
import zlib
from datetime import datetime
from io import StringIO
from pathlib import Path

import codec
import filesupport as fsup
from props import c04

PROP = "C05"
LEAN_MODULES = ["Props.C05"]
RULE = (
    "two case shapes. roundtrip: (1-4 register types with unambiguous identifiers, positional layouts of mixed "
    "kinds; sequence of 0-12 elements: typed registers with canonical fitting data incl. zeros, empty strings and "
    "None in some positions, interleaved with free-text lines matching no identifier). The real file is built from "
    "the data, written to a StringIO, read back; observed: written text, class/data of every re-read element, "
    "result of the file-level == operator. Judged by Spec.C05.holds (re-read == placeholder + D, == agrees) and "
    "compared with the model's cycle. skip_empty: sequences that also contain all-None registers; the written text "
    "must be that of the sequence without them (Spec.C05.holdsSkipEmpty). In-domain (Unambiguous, canonical data) is "
    "decided by Spec.C05.inDomain; discards are counted. non-trivial = at least one typed register; distinct by "
    "full case. History of the file class (two cases in five): before the observed round trip the SAME file class "
    "(and the same file object) has already been used - it wrote and read other text, either as it stands or, for a "
    "class declaring VERSIONS, under another version (a table that lacks some of the types, holds earlier layouts of "
    "them under the same identifier, in another order) selected and then left again with set_version(); the observed "
    "round trip must be exactly what the model computes for the register list in effect, without any history. "
    "Assembly of the data (one case in three): the container does not receive D by appending in order but through a "
    "deterministic plan of the container's own editing calls (append / add_after / add_before in any insertion order, "
    "extra registers put in and taken out again with remove / remove_registers_of_type, removal requests that find "
    "nothing to take out - a type without instances of itself or of a type derived from it, the free-text type on a container that holds only its "
    "placeholder); whatever the calls, the file then holds placeholder + D, so the observed round trip, the == "
    "operator and len() (len of the written file's data = 1 + |D|, len of the re-read data = number of re-read "
    "elements) must be exactly those of D appended in order. "
    "Foreign text read earlier (three cases in ten, choices drawn from a generator of their own seeded by the case): "
    "some date fields declare further notations after the one they write with (coarser ones, other orders of the "
    "parts, all of the modelled directives), and before the observed round trip the same file class has read - and, "
    "in half of these cases, written back - text that it did not write itself: lines of its own register types whose "
    "values are in any of the declared notations of their fields, in other alignments, with blank fields; nothing of "
    "that is observed, and the observed round trip must be exactly what the model computes for D under the declared "
    "lists of notations, without any history. "
    "Characters that end a line elsewhere (one in-memory case in four that has somewhere to put them, choices drawn from "
    "a generator of their own seeded by the case): in the INTERIOR of some free-text lines and literal values of D "
    "stand characters that are line boundaries to str.splitlines() or to universal-newline reading but not to a "
    "register file handed over in memory - a lone CR, VT, FF, FS, GS, RS, NEL, LS, PS; only LF ends an element, so "
    "the observed round trip must be exactly what the model (whose readline ends at LF alone) computes for that D."
)
ASSUMPTIONS = c04.ASSUMPTIONS + [
    "canonical data = values equal to what their own rendering reads back to (decided with the model's renderer/parser, which is itself compared with the code on every case)",
]
TRUSTED = []
NOT_THEOREMS = ['the per-record premise inside Spec.C05.typedOk (the data-only line reads back to the data: C01) is decided per case by the model for float and date fields; Props.C05.main proves everything the file layer adds, for all inputs in Spec.C05.inDomain']
EXHAUSTIVE = {"quick": False, "thorough": False}
IDENTS = ["AA", "BB", "C1", "DD7", "E", "F-", "GG", "H_H"]


def build_file(case):
    from cfinterface.components.defaultregister import DefaultRegister
    from cfinterface.data.registerdata import RegisterData

    RF, classes = mk_file_class(case)
    data = RegisterData(DefaultRegister(data=""))
    late, objs = [], []
    for e in case["elems"]:
        if case.get("late_fill") and "cls" in e:
            # the register enters the file without values, the file is written once, and the values
            # are then filled in place (r.data[i] = v — what a property setter of a register type does)
            r = classes[e["cls"]]()
            late.append((r, [codec.dec_val(v) for v in e["data"]]))
            objs.append(r)
        else:
            objs.append(fsup.dec_relem(e, classes))
    if case.get("assembly"):
        assemble(data, objs, classes, assembly_steps(case, classes))
    else:
        for r in objs:
            data.append(r)
    f = RF(data=data)
    if late:
        f.write(StringIO())
        for r, vals in late:
            for i, v in enumerate(vals):
                r.data[i] = v
    return RF, classes, f


def assembly_steps(case, classes=None):
    """the container-editing calls that bring a fresh container to placeholder + D (see RULE). Derived from
    case['assembly']['seed'] and the elements, so that a shrunk case has a valid plan of its own. Ids: -1 = the
    placeholder, k >= 0 = case['elems'][k], 's<j>' = an extra register that is taken out again before the file is used"""
    rng = random.Random(case["assembly"]["seed"])
    elems, nreg = case["elems"], len(case["regs"])
    classes = classes if classes is not None else fsup.mk_register_classes(case["regs"])

    def covers(t, k):
        # a removal by type takes out the instances of the type, those of the types derived from it included
        return k == "dflt" if t == "dflt" else k != "dflt" and issubclass(classes[k], classes[t])

    used = {e["cls"] for e in elems if "cls" in e}
    unused = [i for i in range(nreg) if not any(covers(i, k) for k in used)]
    kind = {-1: "dflt"}
    for k, e in enumerate(elems):
        kind[k] = e.get("cls", "dflt")
    present, steps, nextra = [-1], [], [0]

    def nothing_to_remove():
        opts = [i for i in range(nreg) if not any(covers(i, kind[x]) for x in present)]
        if present == [-1]:
            opts += ["dflt", "dflt"]  # clearing the free text of a container that holds only its placeholder
        if opts:
            steps.append({"op": "rm_type", "t": rng.choice(opts), "finds": 0})

    def put(x, lo, hi):
        p = rng.randrange(lo + 1, hi + 1)
        if p == len(present) and rng.random() < 0.6:
            how, ref = "append", None
        elif p == len(present) or rng.random() < 0.5:
            how, ref = "after", present[p - 1]
        else:
            how, ref = "before", present[p]
        steps.append({"op": "put", "x": x, "how": how, "ref": ref})
        present.insert(p, x)

    def extra():
        x = "s%d" % nextra[0]
        nextra[0] += 1
        kind[x] = rng.choice(unused) if unused and rng.random() < 0.6 else "dflt"
        put(x, 0, len(present))

    def take_out():
        xs = [x for x in present if isinstance(x, str)]
        if not xs:
            return
        x = rng.choice(xs)
        if kind[x] != "dflt" and rng.random() < 0.5:  # by type: no element of D has this type
            gone = [y for y in present if covers(kind[x], kind[y])]
            steps.append({"op": "rm_type", "t": kind[x], "finds": len(gone)})
        else:
            gone = [x]
            steps.append({"op": "rm", "x": x})
        for y in gone:
            present.remove(y)

    if rng.random() < 0.5:
        nothing_to_remove()
    order = list(range(len(elems)))
    if rng.random() < 0.6:
        rng.shuffle(order)
    for k in order:
        r = rng.random()
        if r < 0.15:
            extra()
        elif r < 0.25:
            take_out()
        elif r < 0.33:
            nothing_to_remove()
        lo = max(i for i, y in enumerate(present) if y == -1 or (isinstance(y, int) and y < k))
        hi = min([i for i, y in enumerate(present) if isinstance(y, int) and y > k] + [len(present)])
        put(k, lo, hi)
    if rng.random() < 0.3:
        extra()
    while any(isinstance(x, str) for x in present):
        take_out()
    if rng.random() < 0.3:
        nothing_to_remove()
    assert present == [-1] + list(range(len(elems)))
    return [{**st, "kind": kind[st["x"]]} if st["op"] == "put" and isinstance(st["x"], str) else st for st in steps]


def assemble(data, objs, classes, steps):
    from cfinterface.components.defaultregister import DefaultRegister

    held = {-1: data.first, **dict(enumerate(objs))}
    for st in steps:
        if st["op"] == "rm_type":
            data.remove_registers_of_type(DefaultRegister if st["t"] == "dflt" else classes[st["t"]])
        elif st["op"] == "rm":
            data.remove(held[st["x"]])
        else:
            x = st["x"]
            if x not in held:
                held[x] = DefaultRegister(data="to be taken out again\n") if st["kind"] == "dflt" else classes[st["kind"]]()
            if st["how"] == "append":
                data.append(held[x])
            elif st["how"] == "after":
                data.add_after(held[st["ref"]], held[x])
            else:
                data.add_before(held[st["ref"]], held[x])


def show_assembly(case):
    if not case.get("assembly"):
        return ""

    def name(x):
        return "placeholder" if x == -1 else f"D[{x}]" if isinstance(x, int) else f"extra{x[1:]}"

    def tname(t):
        return "DefaultRegister" if t == "dflt" else f"type {t}"

    calls = []
    for st in assembly_steps(case):
        if st["op"] == "rm_type":
            calls.append(f"remove_registers_of_type({tname(st['t'])}) [matches {'only the placeholder, alone in the container' if st['t'] == 'dflt' else st['finds']}]")
        elif st["op"] == "rm":
            calls.append(f"remove({name(st['x'])})")
        else:
            new = name(st["x"]) + (f" (a {tname(st['kind'])})" if "kind" in st else "")
            calls.append(f"append({new})" if st["how"] == "append" else f"add_{st['how']}({name(st['ref'])}, {new})")
    return " [assembly: fresh container, then " + "; ".join(calls) + " - after which the container holds placeholder + D]"


def mk_file_class(case):
    """the file class of the case: fsup.mk_register_file's, or - when the case's history visits versions - the
    same class declaring a VERSIONS table {warm: another register list, final: the case's own register list}"""
    h = case.get("history") or {}
    if "versions" not in h:
        return fsup.mk_register_file(case["regs"], io=case.get("io"))
    from cfinterface.files.registerfile import RegisterFile

    regs = case["regs"]
    classes = fsup.mk_register_classes(regs)
    olds = iter(fsup.mk_register_classes([t["old"] for t in h["warm_types"] if "old" in t]))
    warm = [classes[t["same"]] if "same" in t else next(olds) for t in h["warm_types"]]
    keys = h["versions"]
    ns = {"VERSIONS": {keys["warm"]: warm, keys["final"]: classes}, "STORAGE": fsup.text_storage("TEXT", len(regs)), "__slots__": []}
    declared = {"final": classes, "warm": warm}.get(h.get("declared"))
    if declared is not None:  # otherwise the class declares no REGISTERS of its own: only set_version() gives it any
        ns["REGISTERS"] = declared
    if case.get("io"):
        ns["ENCODING"] = case["io"]["enc"]
    return fsup.derived(type("RF", (RegisterFile,), ns), len(regs)), classes


def warm_up(RF, f, case, h):
    """earlier uses of the file class and of the file object; nothing of them is observed: the property says
    what the round trip that FOLLOWS gives, whatever the class did before"""
    io = case.get("io")
    tw = fsup.write_text(f, io)
    for n, v in enumerate(h["visits"]):
        if v is not None:
            RF.set_version(h["versions"][v])
        text = tw if n % 2 == 0 else "".join(reversed(tw.splitlines(True)))
        g = fsup.read_text(RF, text, io, *c04.text_linesize(case))
        if n % 2 == 0 and not any("old" in t for t in h.get("warm_types", [])):
            # written back only when every typed register of g was read by the layout that wrote it: what an
            # earlier layout makes of the text (an infinite float, say) need not be writable, and no property says so
            fsup.write_text(g, io)
    if "versions" in h:
        RF.set_version(h["select"])  # the version the observed round trip runs under: the case's register list


def read_foreign(RF, case, lg):
    """the file class reads (and may write back) text it did not write itself; nothing of it is observed"""
    io = case.get("io")
    for t in lg["texts"]:
        g = fsup.read_text(RF, codec.dec_str(t), io, *c04.text_linesize(case))
        if lg.get("write_back"):
            fsup.write_text(g, io)


def run_impl(case):
    try:
        RF, classes, f = build_file(case)
        if case.get("history"):
            warm_up(RF, f, case, case["history"])
        if case.get("legacy"):
            read_foreign(RF, case, case["legacy"])
        w = fsup.write_text(f, case.get("io"))
        if case.get("shape") == "skip_empty":
            return {"written": codec.enc_str(w), "len_written": len(f.data)}
        f2 = fsup.read_text(RF, w, case.get("io"), *c04.text_linesize(case))
        cap = len(w) + 5
        return {"written": codec.enc_str(w), "reread": [fsup.enc_relem(e, classes) for e in fsup.capped(f2.data, cap)], "file_eq": bool(f == f2) and bool(f2 == f) and not (f != f2),
                "len_written": len(f.data), "len_reread": len(f2.data)}
    except Exception as e:
        return codec.enc_exc(e)


def request(case, obs):
    if "harness_exc" in obs:
        obs = {"exc": "harness"}
    if "reread" in obs and any("dflt_none" in e for e in obs["reread"]):
        obs = {"exc": "DefaultWithNoneData"}
    obs = {k: v for k, v in obs.items() if k not in ("len_written", "len_reread")}  # judged in judge(), not by the model
    op = "c05skip" if case.get("shape") == "skip_empty" else "c05"
    return {"op": op, "regs": case["regs"], "elems": case["elems"], "obs": obs}


def judge(case, obs, resp):
    if "error" in resp:
        return {"status": "error", "why": resp["error"]}
    if "harness_exc" in obs:
        return {"status": "error", "why": f"harness: {obs['harness_exc']} {obs.get('msg')}"}
    if not resp["indomain"]:
        return {"status": "skip", "why": "outside the domain (ambiguous identifiers / non-canonical data)"}
    if not resp["model_holds"]:
        return {"status": "error", "why": f"the MODEL's cycle violates Spec.C05.holds: {show(resp.get('model'))}"}
    hist = show_history(case) + show_legacy(case) + show_assembly(case)
    if "exc" in obs:
        return {"status": "oracle", "why": f"write/read raised {obs['exc']}: {obs.get('msg')}{hist}"}
    if not resp["holds"]:
        return {"status": "oracle", "why": f"got {show(obs)}; required {show(resp.get('model'))}{hist}"}
    if not resp["agree"]:
        return {"status": "corr", "why": f"model {show(resp.get('model'))} vs implementation {show(obs)}{hist}"}
    # "same number of elements": len() of the two containers against the elements the model has just judged
    if "len_written" in obs and obs["len_written"] != 1 + len(case["elems"]):
        return {"status": "oracle", "why": f"len() of the written file's data is {obs['len_written']}; it holds the placeholder and the {len(case['elems'])} element(s) of D{hist}"}
    if "len_reread" in obs and obs["len_reread"] != len(obs["reread"]):
        return {"status": "oracle", "why": f"len() of the re-read data is {obs['len_reread']}; iterating it gives {len(obs['reread'])} element(s){hist}"}
    return {"status": "ok", "why": ""}


def show_history(case):
    h = case.get("history")
    if not h:
        return ""
    if "versions" not in h:
        return f" [history: the same file class read {len(h['visits'])} other text(s) before this round trip]"
    k = h["versions"]
    warm = [f"type {t['same']}" if "same" in t else f"an earlier layout of {codec.dec_str(t['old']['ident'])!r}" for t in h["warm_types"]]
    return (f" [history: the file class declares VERSIONS {{{k['warm']!r}: [{', '.join(warm)}], {k['final']!r}: the register list of the case}}; "
            f"before this round trip it read text under version(s) {[k[v] for v in h['visits']]}, then set_version({h['select']!r}) selected {k['final']!r}]")


def show_legacy(case):
    lg = case.get("legacy")
    if not lg:
        return ""
    lists = sorted({str([codec.dec_str(x) for x in fd["fmts"]]) for rd in case["regs"] for fd in rd["fields"] if fd["k"] == "date" and len(fd["fmts"]) > 1})
    return (f" [foreign text: before this round trip the same file class read{' and wrote back' if lg.get('write_back') else ''} "
            f"{[codec.dec_str(t) for t in lg['texts']]}; date fields with several notations: {', '.join(lists) or 'none'}]")


def show(o):
    if isinstance(o, list):
        return repr(codec.dec_str(o))
    if not o or "written" not in o:
        return str(o)
    s = f"written={codec.dec_str(o['written'])!r}"
    if "reread" in o:
        s += f" reread={[c04.show_elem(e) for e in o['reread']]} =={o.get('file_eq')}"
    return s


def nontrivial(case):
    return any("cls" in e for e in case["elems"])


def features(case, obs):
    f = [f"shape={case.get('shape', 'roundtrip')}", f"nregs={len(case['regs'])}", f"nelems={len(case['elems'])}"]
    h = case.get("history")
    f.append("history=" + ("none" if not h else "versions" if "versions" in h else "same_table"))
    if h and "versions" in h:
        kept = {t["same"] for t in h["warm_types"] if "same" in t}
        if any("cls" in e and e["cls"] not in kept for e in case["elems"]):
            f.append("history_data_of_a_type_the_earlier_version_lacks")
    f.append("assembly=" + ("edited" if case.get("assembly") else "appended"))
    f.append("foreign_text=" + ("none" if not case.get("legacy") else "read_and_written_back" if case["legacy"].get("write_back") else "read"))
    f.append("line_boundary_chars_inside=" + ("yes" if case.get("line_boundary_chars") else "no"))
    if case.get("legacy") and any(fd["k"] == "date" and len(fd["fmts"]) > 1 for rd in case["regs"] for fd in rd["fields"]):
        f.append("foreign_text_with_several_date_notations")
    if case.get("assembly"):
        for st in assembly_steps(case):
            if st["op"] == "rm_type" and not st["finds"]:
                f.append("assembly_removal_finds_nothing" + ("_fresh_container" if st["t"] == "dflt" else ""))
            elif st["op"] in ("rm", "rm_type"):
                f.append("assembly_extra_taken_out")
            elif st["how"] != "append":
                f.append("assembly_add_" + st["how"])
    for e in case["elems"]:
        if "cls" in e:
            if all(v is None for v in e["data"]):
                f.append("all_none_register")
            if any(v is None for v in e["data"]) and any(v is not None for v in e["data"]):
                f.append("some_none")
            if any(v in ({"i": 0}, {"s": []}, {"f": 0}) for v in e["data"]):
                f.append("falsy_value")
        else:
            f.append("free_text_line")
    return sorted(set(f))


def signature(rec):
    return rec["verdict"]["why"][:25]


def matches_known(trigger, case):
    return False


def snippet(case):
    return f"""import sys; sys.path.insert(0, '/verif/harness'); sys.path.insert(0, '/repo')
from props import c05
case = {json.dumps(case)}
print(c05.show(c05.run_impl(case)))
"""


# ------------------------------------------------------------------ generators
def canonical_value(rng, fd):
    k = fd["k"]
    r = rng.random()
    if r < 0.12:
        return None if k != "lit" else {"s": []}   # a missing literal is canonically ""
    if k == "int":
        if r < 0.25:
            return {"i": 0}
        digits = rng.randrange(1, fd["size"] + 1)
        n = rng.randrange(0, 10**digits)
        if digits < fd["size"] and rng.random() < 0.3:
            n = -n
        return {"i": n}
    if k == "lit":
        if r < 0.25:
            return {"s": []}
        w = rng.randrange(1, fd["size"] + 1)
        s = "".join(rng.choice("abcXYZ09-_. é" + fsup.NON_ASCII) for _ in range(w)).strip()
        return {"s": codec.enc_str(s)}
    if k == "flt":
        if r < 0.25:
            return codec.enc_val(0.0)
        dec = fd["dec"]
        fmt = codec.dec_str(fd["fmt"])
        if fmt in "Ee":
            x = float("{:.{d}e}".format(rng.uniform(-9, 9) * 10 ** rng.randrange(-5, 6), d=dec))
        else:
            intd = max(0, fd["size"] - dec - 2)
            x = float("{:.{d}f}".format(rng.uniform(-(10**intd) + 1, 10**intd - 1) if intd else rng.uniform(-0.9, 0.9), d=rng.randrange(0, dec + 1)))
        return codec.enc_val(x)
    # date: already at the resolution of the first format
    fmt = codec.dec_str(fd["fmts"][0])
    t = datetime(rng.randrange(1970, 2068), rng.randrange(1, 13), rng.randrange(1, 29), rng.randrange(24), rng.randrange(60), rng.randrange(60))
    t = datetime.strptime(t.strftime(fmt), fmt)
    return codec.enc_val(t)


def make_regs(rng):
    n = rng.randrange(1, 5)
    idents = rng.sample(IDENTS, n)
    regs = []
    digs = [len(ident) + rng.choice([0, 0, 1, 2]) for ident in idents]
    common = max(digs) if rng.random() < 0.85 else 0
    for ident, digits in zip(idents, digs):
        fields, pos = [], max(digits, common) + rng.choice([0, 1])
        for _ in range(rng.randrange(1, 5)):
            k = rng.choice(["int", "lit", "flt", "date"])
            if k == "int":
                # mostly narrow; one in six wide enough for values beyond 2**53 (serial numbers, nanosecond stamps)
                fd = codec.fd_int(rng.choice([12, 17, 19]) if rng.random() < 0.17 else rng.randrange(1, 10), pos)
            elif k == "lit":
                fd = codec.fd_lit(rng.randrange(1, 10), pos)
            elif k == "flt":
                fmt = rng.choice("FFFE")
                dec = rng.randrange(0, 5)
                fd = codec.fd_flt(rng.randrange(dec + 3, dec + 9) if fmt == "F" else dec + 8, pos, dec, fmt, rng.choice(".,"))
            else:
                fm, w = rng.choice([("%Y/%m/%d", 10), ("%d%m%y", 6), ("%Y-%m-%d %H:%M", 16), ("%d/%m/%Y", 10)])
                fms = [fm]
                if rng.random() < 0.25:
                    # a LIST of formats; the later ones also parse (some of) the first one's output,
                    # with a different result: the first declared format that parses must win
                    fms += {"%d/%m/%Y": ["%m/%d/%Y"], "%Y/%m/%d": ["%Y/%d/%m"], "%d%m%y": ["%m%d%y", "%y%m%d"]}.get(fm, ["%Y-%m-%d %H:%M:%S"])
                fd = codec.fd_date(w + rng.choice([0, 2]), pos, fms)
            fields.append(fd)
            pos += fd["size"] + rng.choice([0, 0, 1, 2])
        regs.append({"ident": codec.enc_str(ident), "digits": digits, "fields": fields, "delimiter": None})
    if rng.random() < 0.1:  # sometimes ambiguous on purpose (must then be discarded by the domain guard)
        regs[0]["ident"] = codec.enc_str("")
    return regs


FREE_TEXT = ["# comment\n", "\n", "   \n", "free text line\n", "& 12 34\n", "#AA not at column 0? no: starts with #\n", "zz\n",
             "& vazão média (m³/s)\n", "ñ\n", "* comentário não reconhecido\n"]


VERSION_KEYS = [("v1", "v2", ["v2", "v2", "v7"]), ("v3", "v2", ["v2", "v2b"]), ("1.0", "1.1", ["1.1", "1.1.4", "9"]), ("2024", "2023", ["2023", "2023-12"])]


def earlier_layout(rng, rd):
    """another layout under the same identifier (what an earlier version of a record type looks like)"""
    fields = [dict(fd) for fd in rd["fields"]]
    how = rng.randrange(3)
    if how == 0 and len(fields) > 1:
        fields.pop()
    elif how == 1:
        last = fields[-1]
        fields.append(codec.fd_int(rng.randrange(1, 6), last["start"] + last["size"] + 1))
    else:
        for fd in fields:
            fd["start"] += 2
    return {**rd, "fields": fields}


def random_history(rng, regs):
    """what the file class did before the observed round trip (see RULE)"""
    if rng.random() < 0.25:
        return {"visits": [None] * rng.choice([1, 1, 2])}
    n = len(regs)
    types = []
    for i in range(n):
        r = rng.random()
        if r < 0.45:
            types.append({"same": i})
        elif r < 0.65:
            types.append({"old": earlier_layout(rng, regs[i])})
    if len(types) == n and all("same" in t for t in types):
        types.pop(rng.randrange(n))  # the earlier version differs from the one observed
    if rng.random() < 0.5:
        rng.shuffle(types)
    warm, final, selects = rng.choice(VERSION_KEYS)
    return {"versions": {"warm": warm, "final": final}, "warm_types": types, "declared": rng.choice(["final", "final", "warm", "none"]),
            "visits": rng.choice([["warm"], ["warm"], ["warm"], ["final", "warm"], ["warm", "warm"]]), "select": rng.choice(selects)}


def random_case(rng, with_empty=False, history=False, assembly=False):
    regs = make_regs(rng)
    elems = []
    for _ in range(fsup.nlines(rng, 13)):
        if rng.random() < 0.25:
            if rng.random() < 0.3:
                # free text that carries a declared identifier outside its window (shifted / in the body)
                ident = codec.dec_str(rng.choice(regs)["ident"])
                txt = rng.choice(["  " + ident + " 12 shifted\n", "* " + ident + "\n", "see " + ident + " below\n", "\t" + ident + "\n"])
                elems.append({"dflt": codec.enc_data(txt)})
            else:
                elems.append({"dflt": codec.enc_data(rng.choice(FREE_TEXT))})
        else:
            i = rng.randrange(len(regs))
            data = [canonical_value(rng, fd) for fd in regs[i]["fields"]]
            if all(v is None for v in data) and not with_empty:
                data[0] = canonical_value(random.Random(rng.random()), dict(regs[i]["fields"][0])) or ({"i": 0} if regs[i]["fields"][0]["k"] == "int" else None)
            if with_empty and rng.random() < 0.3:
                data = [None] * len(data)
            elems.append({"cls": i, "data": data})
    if elems and "dflt" in elems[-1] and rng.random() < 0.3:
        elems[-1] = {"dflt": codec.enc_data(codec.dec_data(elems[-1]["dflt"]).rstrip("\n") or "x")}
    case = {"regs": regs, "elems": elems}
    if rng.random() < 0.3:
        case["linesize"] = rng.choice([2, 3, 16, 80])
    if rng.random() < 0.2:
        case["late_fill"] = True
    if with_empty:
        case["shape"] = "skip_empty"
    texts = [codec.dec_data(e["dflt"]) for e in elems if "dflt" in e]
    texts += [codec.dec_str(v["s"]) for e in elems if "data" in e for v in e["data"] if isinstance(v, dict) and "s" in v]
    io = fsup.io_of(rng, [t for t in texts if isinstance(t, str)])
    if io:
        case["io"] = io  # written to / read back from a path on disk, in the class's declared encoding
    if history and rng.random() < 0.4:
        case["history"] = random_history(rng, regs)
    if assembly and rng.random() < 0.34:
        case["assembly"] = {"seed": rng.randrange(2**32)}
    return case


# further notations a date field may accept on reading, by the notation it writes with (none is longer than it)
MORE_NOTATIONS = {
    "%Y/%m/%d": ["%Y/%m", "%d/%m/%Y", "%Y%m%d", "%d/%m/%y", "%Y"],
    "%d%m%y": ["%m/%y", "%Y", "%m%Y", "%y"],
    "%Y-%m-%d %H:%M": ["%Y-%m-%d", "%Y-%m-%d %H", "%d/%m/%Y %H:%M", "%Y%m%d%H%M%S", "%Y-%m"],
    "%d/%m/%Y": ["%m/%Y", "%Y-%m-%d", "%d/%m/%y", "%Y"],
}


def foreign_line(xr, rd):
    """one line of a register type as another program may have produced it: values in any of the declared
    notations of their fields, aligned either way, some fields blank"""
    ident = codec.dec_str(rd["ident"])
    width = max([rd["digits"]] + [fd["start"] + fd["size"] for fd in rd["fields"]])
    buf = [" "] * width
    buf[: len(ident)] = ident
    for fd in rd["fields"]:
        k, size = fd["k"], fd["size"]
        if xr.random() < 0.15:
            continue
        if k == "int":
            txt = str(xr.randrange(0, 10 ** xr.randrange(1, min(size, 6) + 1)))
        elif k == "lit":
            txt = "".join(xr.choice("abcXYZ09-_.") for _ in range(xr.randrange(1, size + 1)))
        elif k == "flt":
            txt = ("%.*f" % (fd["dec"], xr.uniform(0, 9))).replace(".", codec.dec_str(fd["sep"]))
        else:
            fmts = [codec.dec_str(x) for x in fd["fmts"]]
            fmt = xr.choice(fmts[1:]) if len(fmts) > 1 and xr.random() < 0.8 else fmts[0]
            t = datetime(xr.randrange(1970, 2068), xr.randrange(1, 13), xr.randrange(1, 29), xr.randrange(24), xr.randrange(60), xr.randrange(60))
            txt = t.strftime(fmt)
        txt = txt[:size]
        txt = txt.ljust(size) if xr.random() < 0.5 else txt.rjust(size)
        buf[fd["start"] : fd["start"] + size] = txt
    return "".join(buf).rstrip() + "\n"


def add_foreign_text(case):
    """the 'foreign text read earlier' dimension (see RULE); every choice comes from a generator seeded by the
    case, so the cases without it are the ones generated before the dimension existed"""
    xr = random.Random(zlib.crc32(json.dumps(case, sort_keys=True).encode()))
    if xr.random() >= 0.3:
        return case
    regs = []
    for rd in case["regs"]:
        fields = []
        for fd in rd["fields"]:
            if fd["k"] == "date" and len(fd["fmts"]) == 1 and xr.random() < 0.6:
                more = [m for m in MORE_NOTATIONS.get(codec.dec_str(fd["fmts"][0]), []) if len(datetime(2000, 10, 10, 10, 10, 10).strftime(m)) <= fd["size"]]
                fd = {**fd, "fmts": fd["fmts"] + [codec.enc_str(m) for m in xr.sample(more, min(len(more), xr.choice([1, 1, 2])))]}
            fields.append(fd)
        regs.append({**rd, "fields": fields})
    texts = []
    for _ in range(xr.choice([1, 1, 2])):
        lines = [foreign_line(xr, xr.choice(regs)) for _ in range(xr.randrange(1, 5))]
        if xr.random() < 0.3:
            lines.insert(xr.randrange(len(lines) + 1), "& text of another origin\n")
        texts.append(codec.enc_str("".join(lines)))
    return {**case, "regs": regs, "legacy": {"texts": texts, "write_back": xr.random() < 0.5}}


# line boundaries of str.splitlines() / of universal-newline reading that are NOT line ends of a text handed over
# in memory (io.StringIO, newline="\n"); the lone CR comes up in half of the draws
OTHER_LINE_BOUNDARIES = "\r\r\r\r\r\r\r\r\x0b\x0c\x1c\x1d\x1e\x85\u2028\u2029"


def add_line_boundary_chars(case):
    """the 'characters that end a line elsewhere' dimension (see RULE); in-memory cases only (a path is read with
    universal newlines, of which the property says nothing); every choice comes from a generator seeded by the
    case, so the cases without it are the ones generated before the dimension existed"""
    if case.get("io"):
        return case
    xr = random.Random(zlib.crc32(b"line-boundaries:" + json.dumps(case, sort_keys=True).encode()))
    if xr.random() >= 0.25:
        return case
    elems, changed = [], False
    for e in case["elems"]:
        if "dflt" in e and "s" in e["dflt"]:
            line = codec.dec_data(e["dflt"])
            body = line[:-1] if line.endswith("\n") else line
            if len(body) >= 2 and xr.random() < 0.6:
                i = xr.randrange(1, len(body))
                e = {"dflt": codec.enc_data(body[:i] + xr.choice(OTHER_LINE_BOUNDARIES) + body[i:] + line[len(body):])}
                changed = True
        elif "cls" in e:
            data = list(e["data"])
            for j, v in enumerate(data):
                if isinstance(v, dict) and "s" in v and len(v["s"]) >= 3 and xr.random() < 0.5:
                    # one interior character gives way: the value keeps its length and its first and last character
                    i = xr.randrange(1, len(v["s"]) - 1)
                    data[j] = {"s": v["s"][:i] + [ord(xr.choice(OTHER_LINE_BOUNDARIES))] + v["s"][i + 1 :]}
                    changed = True
            e = {**e, "data": data}
        elems.append(e)
    return {**case, "elems": elems, "line_boundary_chars": True} if changed else case


def corpus_cases():
    d = Path(__file__).resolve().parent.parent.parent / "corpus" / PROP
    out = []
    if d.exists():
        for f in sorted(d.glob("*.json")):
            j = json.loads(f.read_text())
            out.append(j["case"] if "case" in j else j)
    return out


def chunks(tier, seed):
    ch = [{"kind": "corpus"}]
    nrand = {"quick": 3000, "thorough": 320000}.get(tier, 10000)
    per = max(1, nrand // 16)
    for i in range(16):
        ch.append({"kind": "random", "seed": seed * 1000 + i, "n": per, "empty": i % 4 == 3})
    return ch


def cases_of(chunk):
    if chunk["kind"] == "corpus":
        yield from corpus_cases()
    else:
        rng = random.Random(chunk["seed"])
        for _ in range(chunk["n"]):
            yield add_line_boundary_chars(add_foreign_text(random_case(rng, chunk["empty"], history=True, assembly=True)))


def shrinks(case):
    es = case["elems"]
    if case.get("assembly"):
        yield {k: v for k, v in case.items() if k != "assembly"}
    if case.get("legacy"):
        yield {k: v for k, v in case.items() if k != "legacy"}
        lg = case["legacy"]
        if lg.get("write_back"):
            yield {**case, "legacy": {**lg, "write_back": False}}
        for i in range(len(lg["texts"]) if len(lg["texts"]) > 1 else 0):
            yield {**case, "legacy": {**lg, "texts": lg["texts"][:i] + lg["texts"][i + 1 :]}}
        for i, t in enumerate(lg["texts"]):
            ls = codec.dec_str(t).splitlines(True)
            for j in range(len(ls) if len(ls) > 1 else 0):
                yield {**case, "legacy": {**lg, "texts": lg["texts"][:i] + [codec.enc_str("".join(ls[:j] + ls[j + 1 :]))] + lg["texts"][i + 1 :]}}
    if case.get("history"):
        yield {k: v for k, v in case.items() if k != "history"}
        h = case["history"]
        if len(h["visits"]) > 1:
            yield {**case, "history": {**h, "visits": h["visits"][-1:]}}
    for i in range(len(es)):
        yield {**case, "elems": es[:i] + es[i + 1 :]}
    for i in range(len(es)):
        yield {**case, "elems": [es[i]]}
