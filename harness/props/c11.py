"""C11 — delimited lines: token-wise round trip, no carry-over between lines."""
from __future__ import annotations

import json
import random
from pathlib import Path

import codec
from props import c01

PROP = "C11"
LEAN_MODULES = ["Props.C11", "Props.C11F", "Props.Legacy", "Props.C11D", "Props.C11S"]
RULE = (
    "case = (1-6 fields of mixed kinds, value list incl. runs of leading / trailing missing values, delimiter in ; , | tab :: ;; and delimiters with blanks such as ', ' '; ' ' | ', blank padding per token, a "
    "sequence of 1-6 further lines with short / exact / long token counts). One real Line(fields, delimiter=d): write "
    "the values; read the written line; read the same tokens with extra blanks around them; then read the further "
    "lines one after the other through the SAME line object. Compared with the model and judged by Spec.C11.holds "
    "(written = trimmed renderings joined by d + newline; read-back = canonical values; padding irrelevant; every "
    "read of the sequence depends on its own line only: absent tokens -> None, surplus tokens ignored). The same "
    "sequences are also read through RegisterFile.read with a delimited register class. In-domain (no character of "
    "the delimiter in a rendering) is decided by Spec.C11.inDomain. non-trivial = the sequence contains a line with "
    "fewer tokens than fields after a longer one, or a non-missing value; distinct by full case. One case in five has a "
    "delimiter made of white space only (TAB, a blank, runs and mixtures of the two), used like any other delimiter — empty "
    "tokens at the start and in the middle of such a line keep their places (Spec.C11.inDomain admits delimiters made of "
    "TAB and blanks, so Props.C11.main_full covers them). Half of the register-file cases put the observed "
    "register class into a FAMILY: it derives from (or is the base of) another concrete delimited register class with its own LINE "
    "(one field fewer / one more, another delimiter, another identifier width, field objects shared or not); registers of the "
    "relative are read from the same file before and between the observed lines and written to the same storage before the "
    "observed register is written, and the observed class must still read every line as the model reads it under ITS OWN layout "
    "and write the identifier plus the model's written line."
)
ASSUMPTIONS = [
    "no rendering contains the delimiter as a substring (the property's wording), and the self-overlapping corner is excluded: splitting the joined tokens must give the tokens back (Spec.C11.tokensOk)",
    "delimiters made of white space only are admitted when they consist of TAB and blanks (other white space — line breaks, FF, VT, the separators 0x1c-0x1f — stays outside Spec.C11.inDomain)",
] + c01.ASSUMPTIONS
TRUSTED = c01.TRUSTED
NOT_THEOREMS = ['nothing within the domain: Props.C11.main_full is the whole of Spec.C11.holds for every layout, value list and delimiter admitted by Spec.C11.inDomain (delimiters with blanks included: the guard decides that no token contains the delimiter and that splitting the joined tokens gives them back; Props.C11.split_snoc carries that over to the written and to the padded line); the per-token law is proved for every kind (tokLaw_of_domain). Delimiters made of TAB and blanks only are inside the domain as well (the guard of Spec.C11.inDomain was widened; the proofs did not need it).']
EXHAUSTIVE = {"quick": False, "thorough": False}
DELIMS = [";", ",", "|", "\t", "::", ";;", ";", ", ", "; ", " | ", " :", "\t;"]
# delimiters made of white space only: columns separated by TAB or by blanks
WS_DELIMS = ["\t", "\t", "\t", " ", " ", "\t\t", "  ", " \t", "\t "]


def pad_line(written, d, pads):
    toks = written[:-1].split(d) if written.endswith("\n") else written.split(d)
    out = []
    for i, t in enumerate(toks):
        a, b = pads[i] if i < len(pads) else (0, 0)
        out.append(" " * a + t + " " * b)
    return d.join(out) + "\n"


def ws_only(d):
    return d != "" and all(c.isspace() for c in d)


def run_impl(case):
    from cfinterface.components.line import Line

    try:
        d = codec.dec_str(case["delimiter"])
        fs = [codec.mk_field(fd) for fd in case["fields"]]
        ln = Line(fs, delimiter=d)
        vals = [codec.dec_val(v) for v in case["values"]]
        w = ln.write(vals)
        r = ln.read(w)
        rp = ln.read(pad_line(w, d, case["pads"]))
        seq = []
        for l in case["lines"]:
            seq.append([codec.enc_val(x) for x in ln.read(codec.dec_str(l))])
        out = {"written": codec.enc_str(w), "read_back": [codec.enc_val(x) for x in r], "read_padded": [codec.enc_val(x) for x in rp], "seq_reads": seq}
        if case.get("via_register"):
            out["register_reads"] = register_reads(case)
            if case.get("family"):
                out["register_written"] = codec.enc_str(register_written(case))
        return out
    except Exception as e:
        return codec.enc_exc(e)


def body(line):
    return line[:-1] if line.endswith("\n") else line


def register_classes(case):
    """the observed delimited register class R (layout of the case) and, when the case has a family, a relative:
    another concrete register class with a LINE of its own, of which R is the base or from which R derives"""
    from cfinterface.components.line import Line
    from cfinterface.components.register import Register
    from cfinterface.components.literalfield import LiteralField

    d = codec.dec_str(case["delimiter"])
    fs = [codec.mk_field(fd) for fd in case["fields"]]
    fam = case.get("family")
    if not fam:

        class R(Register):
            IDENTIFIER = "ID"
            IDENTIFIER_DIGITS = 2
            LINE = Line(fs, delimiter=d)

        return R, None
    od = codec.dec_str(fam["delimiter"])
    n = len(fs)
    if fam["observed"] == "derived":
        # the relative is the base: one field fewer (the same number for a one-field layout)
        m = n - 1 if n > 1 else n
        ofs = fs[:m] if fam.get("share") else [codec.mk_field(fd) for fd in case["fields"][:m]]

        class B(Register):
            IDENTIFIER = "CO"
            IDENTIFIER_DIGITS = fam["id_digits"]
            LINE = Line(ofs, delimiter=od)

        class R(B):
            IDENTIFIER = "ID"
            IDENTIFIER_DIGITS = 2
            LINE = Line(fs, delimiter=d)

        return R, B
    # the relative derives from the observed class and has one more field
    ofs = (list(fs) if fam.get("share") else [codec.mk_field(fd) for fd in case["fields"]]) + [LiteralField(6, 0)]

    class R(Register):
        IDENTIFIER = "ID"
        IDENTIFIER_DIGITS = 2
        LINE = Line(fs, delimiter=d)

    class B(R):
        IDENTIFIER = "CO"
        IDENTIFIER_DIGITS = fam["id_digits"]
        LINE = Line(ofs, delimiter=od)

    return R, B


def relative_data(case, B):
    vals = [codec.dec_val(v) for v in case["values"]]
    m = len(B.LINE.fields)
    return vals[:m] + ["zz"] * (m - len(vals))


def register_reads(case):
    """the same sequence of lines through RegisterFile.read with a delimited register class (alone, or with lines of
    a relative of its family before / between its own)"""
    from cfinterface.files.registerfile import RegisterFile

    d = codec.dec_str(case["delimiter"])
    R, B = register_classes(case)

    class F(RegisterFile):
        REGISTERS = [R] if B is None else ([B, R] if case["family"].get("listed_first") else [R, B])

    # (the line's own newline is dropped, not turned into a blank: a blank may be the delimiter)
    bodies = [body(codec.dec_str(l)).replace("\n", " ") for l in case["lines"]]
    content = ""
    mix = case["family"]["mix"] if B is not None else []
    if B is not None:
        od = B.LINE.delimiter
        if mix and mix[0]:
            # a written register of the relative comes first
            content += "CO" + od + B.LINE.write(relative_data(case, B))
    for i, b in enumerate(bodies):
        content += "ID" + d + b + "\n"
        if i + 1 < len(mix) and mix[i + 1]:
            # the tokens of the line just read, as a line of the relative
            content += "CO" + od + od.join(b.split(d)) + "\n"
    f = F.read(content)
    return [[codec.enc_val(x) for x in r.data] for r in f.data.of_type(R) if type(r) is R]


def register_written(case):
    """the observed register written to a TEXT storage after (family "write_first") a register of its relative"""
    from io import StringIO

    R, B = register_classes(case)
    vals = [codec.dec_val(v) for v in case["values"]]
    if case["family"].get("write_first"):
        B(data=relative_data(case, B)).write(StringIO(), "TEXT")
    else:
        B(data=relative_data(case, B)).read(StringIO("CO\n"), "TEXT")
    out = StringIO()
    R(data=list(vals)).write(out, "TEXT")
    return out.getvalue()


def request(case, obs):
    if "harness_exc" in obs:
        obs = {"exc": "harness"}
    o = {k: v for k, v in obs.items() if k not in ("register_reads", "register_written")}
    return {"op": "c11", "fields": case["fields"], "values": case["values"], "delimiter": case["delimiter"], "pads": case["pads"], "lines": case["lines"], "obs": o}


def judge(case, obs, resp):
    if "error" in resp:
        return {"status": "error", "why": resp["error"]}
    if "harness_exc" in obs:
        return {"status": "error", "why": f"harness: {obs['harness_exc']} {obs.get('msg')}"}
    indomain = resp["indomain"]  # delimiters of TAB / blank only are inside Spec.C11.inDomain now
    if not indomain:
        return {"status": "skip", "why": "outside the domain"}
    if not resp["model_holds"]:
        return {"status": "error", "why": f"the MODEL's cycle violates Spec.C11.holds: {show(resp.get('model'))}"}
    if "exc" in obs:
        return {"status": "oracle", "why": f"delimited write/read raised {obs['exc']}: {obs.get('msg')}"}
    if not resp["holds"]:
        m = resp.get("model") or {}
        bad = [k for k in ("written", "read_back", "read_padded", "seq_reads") if m.get(k) != obs.get(k)]
        return {"status": "oracle", "why": f"{bad} wrong: got {show(obs)}; required {show(m)}"}
    if "register_reads" in obs:
        # each register's data = the model's read of its own line (with the identifier token dropped)
        exp = (resp.get("model") or {}).get("seq_reads")
        if exp is not None and obs["register_reads"] != exp:
            fam = f" (family: the {case['family']['observed']} class observed)" if case.get("family") else ""
            return {"status": "oracle", "why": f"RegisterFile.read of delimited registers{fam}: got {showvals(obs['register_reads'])} required {showvals(exp)}"}
    if "register_written" in obs:
        # a register with a value is written as its identifier and the model's written line, joined by the delimiter
        w = (resp.get("model") or {}).get("written")
        if w is not None and any(v is not None for v in case["values"]):
            exp = "ID" + codec.dec_str(case["delimiter"]) + codec.dec_str(w)
            got = codec.dec_str(obs["register_written"])
            if got != exp:
                return {"status": "oracle", "why": f"Register.write of a delimited register class with a relative ({case['family']['observed']} class observed): got {got!r} required {exp!r}"}
    if not resp["agree"]:
        return {"status": "corr", "why": f"model {show(resp.get('model'))} vs implementation {show(obs)}"}
    return {"status": "ok", "why": ""}


def showvals(vv):
    out = []
    for vs in vv:
        row = []
        for v in vs:
            try:
                row.append(repr(codec.dec_val(v)))
            except Exception:
                row.append(str(v))
        out.append(row)
    return out


def show(o):
    if not o or "written" not in o:
        return str(o)
    return f"written={codec.dec_str(o['written'])!r} read={showvals([o['read_back']])[0]} padded={showvals([o['read_padded']])[0]} seq={showvals(o['seq_reads'])}"


def ntokens(case, l):
    return len(codec.dec_str(l).split(codec.dec_str(case["delimiter"])))


def nontrivial(case):
    counts = [ntokens(case, l) for l in case["lines"]]
    shorter_after_longer = any(counts[i] < len(case["fields"]) and max(counts[:i] + [len(case["fields"])]) > counts[i] for i in range(len(counts)))
    return shorter_after_longer or any(v is not None for v in case["values"])


def features(case, obs):
    f = [f"nfields={len(case['fields'])}", f"delim={codec.dec_str(case['delimiter'])!r}", f"nlines={len(case['lines'])}"]
    n = len(case["fields"])
    for l in case["lines"]:
        c = ntokens(case, l)
        f.append("line_short" if c < n else ("line_long" if c > n else "line_exact"))
    if case.get("via_register"):
        f.append("via_register_file")
        if case.get("family"):
            f.append("register_family_observed_" + case["family"]["observed"])
    if ws_only(codec.dec_str(case["delimiter"])):
        f.append("delim_white_space_only")
        if any(v is None for v in case["values"][:-1]):
            f.append("ws_delim_missing_value_not_last")
    return f


def signature(rec):
    return rec["verdict"]["why"][:25]


def matches_known(trigger, case):
    return False


def snippet(case):
    return f"""import sys; sys.path.insert(0, '/verif/harness'); sys.path.insert(0, '/repo')
from props import c11
case = {json.dumps(case)}
print(c11.show(c11.run_impl(case)))
"""


# ------------------------------------------------------------------ generators
TOKS = ["1", "22", "-3", "abc", "x y", "", " ", "1.5", "2,5", "1e3", "2021/02/03", "nan", "zz", "007", "12345678901", '"ab"', '3.5"', '"', "'q'", '"7"']


def random_case(rng):
    n = rng.randrange(1, 7)
    d = rng.choice(WS_DELIMS) if rng.random() < 0.2 else rng.choice(DELIMS)
    fields, values, fam = [], [], []
    for _ in range(n):
        fd, v = c01.make_field(rng, rng.choice([0, 0, 3]), fam)
        if fd["k"] == "flt" and codec.dec_str(fd["sep"]) == d:
            fd["sep"] = codec.enc_str("." if "." != d else ",")
        fields.append(fd)
        values.append(v)
    if rng.random() < 0.3:
        # trailing / leading missing values: the line then ends (starts) with the delimiter itself
        k = rng.randrange(1, n + 1)
        if rng.random() < 0.7:
            values[n - k :] = [None] * k
        else:
            values[:k] = [None] * k
    pads = [[rng.choice([0, 0, 1, 3]), rng.choice([0, 0, 2])] for _ in range(n)]
    lines = []
    for _ in range(rng.randrange(1, 7)):
        k = rng.choice([0, 1, max(0, n - 1), n, n, n + 1, n + 3])
        toks = [rng.choice(TOKS) for _ in range(k)]
        line = d.join(toks)
        if rng.random() < 0.7:
            line += "\n"
        lines.append(codec.enc_str(line))
    case = {"fields": fields, "values": values, "delimiter": codec.enc_str(d), "pads": pads, "lines": lines, "via_register": rng.random() < 0.3}
    if case["via_register"] and rng.random() < 0.5:
        # the observed register class inside a family of two concrete classes, each with a LINE of its own
        case["family"] = {
            "observed": rng.choice(["derived", "derived", "base"]),
            "delimiter": codec.enc_str(rng.choice([d, rng.choice(DELIMS), rng.choice(DELIMS)])),
            "id_digits": rng.choice([2, 2, 3]),
            "share": rng.random() < 0.5,
            "listed_first": rng.random() < 0.5,
            "write_first": rng.random() < 0.7,
            "mix": [rng.random() < 0.7] + [rng.random() < 0.5 for _ in lines],
        }
    return case


def corpus_cases():
    d = Path(__file__).resolve().parent.parent.parent / "corpus" / PROP
    out = []
    if d.exists():
        for f in sorted(d.glob("*.json")):
            j = json.loads(f.read_text())
            out.append(j["case"] if "case" in j else j)
    return out


def chunks(tier, seed):
    ch = [{"kind": "corpus"}]
    nrand = {"quick": 4000, "thorough": 400000}.get(tier, 12000)
    per = max(1, nrand // 16)
    for i in range(16):
        ch.append({"kind": "random", "seed": seed * 1000 + i, "n": per})
    return ch


def cases_of(chunk):
    if chunk["kind"] == "corpus":
        yield from corpus_cases()
    else:
        rng = random.Random(chunk["seed"])
        for _ in range(chunk["n"]):
            yield random_case(rng)


def shrinks(case):
    yield from _shrinks(case)


def _shrinks(case):
    ls = case["lines"]
    for i in range(len(ls)):
        yield {**case, "lines": ls[:i] + ls[i + 1 :]}
    n = len(case["fields"])
    if n > 1:
        for i in range(n):
            yield {**case, "fields": case["fields"][:i] + case["fields"][i + 1 :], "values": case["values"][:i] + case["values"][i + 1 :], "pads": case["pads"][:i] + case["pads"][i + 1 :]}
    if case.get("family"):
        yield {k: v for k, v in case.items() if k != "family"}
        if any(case["family"]["mix"][1:]):
            yield {**case, "family": {**case["family"], "mix": case["family"]["mix"][:1] + [False] * (len(case["family"]["mix"]) - 1)}}
    if case.get("via_register"):
        yield {k: v for k, v in case.items() if k != "family"} | {"via_register": False}
    if any(p != [0, 0] for p in case["pads"]):
        yield {**case, "pads": [[0, 0]] * len(case["pads"])}
    for i, v in enumerate(case["values"]):
        if v is not None:
            yield {**case, "values": case["values"][:i] + [None] + case["values"][i + 1 :]}
