"""C20 — the tabular view mirrors the registers of a type without aliasing them."""
from __future__ import annotations

import json
import math
import random
from datetime import datetime
from pathlib import Path

import codec

PROP = "C20"
LEAN_MODULES = ["Props.C20"]
RULE = (
    "case = (register type with 0-5 user-defined properties over mixed field kinds, names chosen to sort before / "
    "between / after the framework's own property names (in about a third of the cases a caller first edits IN PLACE the lists that custom_properties handed out earlier - remove / append / clear / reverse / sort / overwrite - for the type asked for or for every type: what the library hands out is the caller's to change and leaves nothing behind); a subclass, a second subclass that adds a property of its own and overrides the first inherited one, and an unrelated type (in four cases out of ten the views of the other types are asked for first); a file with 0-10 "
    "registers of the type interleaved with other types and free-text lines; None in any position; in four cases out of ten the file held 1-3 MORE registers earlier - fresh ones or value-for-value copies of registers that stay - which were taken out again with RegisterData.remove after the view / of_type / get_registers_of_type had been asked: the view follows the registers the file holds NOW, whatever was there or was asked before; in four cases out of ten the file object belongs to a DERIVED file class whose REGISTERS / VERSIONS tables list some of the types - the types carry identifiers, several of them the same one, as the layouts of one record in different versions do - and the class is switched with set_version, or its REGISTERS re-assigned, after the object was built and between the views: the view is taken from the registers THE FILE OBJECT holds and from the type asked for, whatever the class's tables list at that moment; in four cases out of ten some of the types REFINE one to three of the framework's own properties - their own empty, data with a validating setter, is_first / is_last / next / previous / custom_properties defined again on top of the framework's - on the type itself, inherited from its parent, or on another type of the file: a framework name stays the framework's whoever defines it, and is never a column). Observed on the "
    "real code: Register.custom_properties, list(df.columns), df.shape[0], every cell (null-aware, numbers as "
    "doubles), and - after overwriting every cell of the frame - whether the registers' data is unchanged. Judged by "
    "Spec.C20.holds (columns = sorted user properties without the framework's; one row per register of the type in "
    "file order when there is a column; cell = property value, missing as null; empty otherwise; registers not "
    "aliased) and compared with the model. non-trivial = at least one register of the type and one property; "
    "distinct by full case."
)
ASSUMPTIONS = [
    "pandas DataFrame construction, null representation and copy semantics are observed, not modelled",
    "one property returns values of one kind (a column is homogeneous up to missing values); integers have magnitude < 2^53",
]
TRUSTED = ["pandas"]
NOT_THEOREMS = ['pandas DataFrame construction / null representation / copy semantics: observed']
EXHAUSTIVE = {"quick": False, "thorough": False}
NAME_POOL = ["alpha", "zeta", "code", "dat", "data2", "emptyy", "is_firstly", "nextt", "previouss", "custom", "custom_propertiez", "Value", "_hidden", "name"]
PARENTS = [None, 0, None]  # K1 subclass of K0; K2 unrelated
# class 4: K4, a second type deriving from K0 that ADDS a property of its own; its registers are registers of K0
# too: a view of K0 shows them as rows under K0's columns
OWN = "own4"
OVERRIDE_INDEX = 1


def build(case):
    from cfinterface.components.defaultregister import DefaultRegister
    from cfinterface.components.register import Register
    from cfinterface.data.registerdata import RegisterData
    from cfinterface.files.registerfile import RegisterFile

    def mkprop(i):
        return property(lambda self: self.data[i] if i < len(self.data) else None)

    tab = case.get("tables") or {}
    ids = tab.get("ids") or {}

    def ident(i):
        # the identifier a type is declared with (None: inherited / the framework's default)
        v = ids.get(str(i))
        return {} if v is None else {"IDENTIFIER": v, "IDENTIFIER_DIGITS": len(v)}

    ref = case.get("refine") or {}

    def refined(i):
        # the framework properties this type defines again (see refinements)
        return refinements(Register, ref.get("names", [])) if i in ref.get("on", []) else {}

    ns = {"__slots__": [], **ident(0), **refined(0)}
    for name, idx in case["props"]:
        ns[codec.dec_str(name)] = mkprop(idx)
    K0 = type("K0", (Register,), ns)
    K1 = type("K1", (K0,), {"__slots__": [], **ident(1), **refined(1)})
    K2 = type("K2", (Register,), {"__slots__": [], "other": mkprop(0), **ident(2), **refined(2)})
    # K4 adds a property and OVERRIDES the first inherited one (a newer layout of the same record keeps the
    # value somewhere else): in every view a register shows what ITS OWN property gives
    k4 = {"__slots__": [], OWN: mkprop(1), **ident(4), **refined(4)}
    if case["props"]:
        k4[codec.dec_str(case["props"][0][0])] = mkprop(OVERRIDE_INDEX)
    K4 = type("K4", (K0,), k4)
    classes = [K0, K1, K2, None, K4]
    data = RegisterData(DefaultRegister(data=""))
    def mkreg(c, vals):
        if c == 3:
            return DefaultRegister(data="free text\n")
        return classes[c](data=[codec.dec_val(v) for v in vals])

    final = [mkreg(c, vals) for c, vals in case["regs"]]
    # registers the file held EARLIER and that are taken out again below (case["gone"]["regs"]: [position in
    # the final sequence before which it stood, class, values])
    gone = case.get("gone") or {}
    extra = [(min(max(int(p), 0), len(final)), mkreg(c, vals)) for p, c, vals in gone.get("regs", [])]
    regs = []
    for i in range(len(final) + 1):
        regs += [r for p, r in extra if p == i]
        if i < len(final):
            regs.append(final[i])
    route = case.get("route", "append")
    if route == "append" or len(regs) < 3:
        for r in regs:
            data.append(r)
    else:
        # the same final sequence reached through insertions in the middle: the ends first, the
        # inner registers after their predecessor, every second one first parked after the wrong
        # neighbour and moved (add_after / add_before / remove on non-last positions)
        data.append(regs[0])
        data.append(regs[-1])
        prev = regs[0]
        for i, r in enumerate(regs[1:-1]):
            if i % 2 == 0:
                data.add_after(prev, r)  # after a register that is not the last one
            else:
                data.add_before(regs[-1], r)  # before the register that followed the previous insertion
            prev = r
    if tab:
        # a file class of the caller's with its own tables (lists of the types above by number); the object is
        # built while the version tab["first"] is selected
        def lst(idx):
            return [classes[i] for i in idx if classes[i] is not None]

        FileK = type("FileK", (RegisterFile,), {"REGISTERS": lst(tab["registers"]), "VERSIONS": {k: lst(v) for k, v in tab["versions"]}})
        select(FileK, tab.get("first"), classes)
        f = FileK(data=data)
    else:
        f = RegisterFile(data=data)
    if extra:
        # the earlier state of the file was looked at (or not), then the extra registers were removed one by
        # one - the registers that stay, and their order, are exactly case["regs"]
        t = classes[case["type"]] if case["type"] != 3 else DefaultRegister
        asked = gone.get("asked", "view")
        out = [r for _, r in extra]
        if gone.get("order") == "backwards":
            out.reverse()
        for k, r in enumerate(out):
            if k == 0 or gone.get("again"):
                ask(f, t, asked)
            data.remove(r)
    return classes, f, final


FRAMEWORK_NAMES = ["data", "empty", "is_first", "is_last", "next", "previous", "custom_properties"]


def refinements(base, names):
    """a register type's own definitions of framework properties, each built on the framework's: the record
    behaves in a file as before (its own notion of `empty`, a `data` that validates what it is given, ...)"""

    def fw(n):
        return getattr(base, n)

    def checked_data(self, d):
        if not isinstance(d, (list, str, bytes)):
            raise TypeError("data of a register is a list of values")
        fw("data").fset(self, d)

    own = {
        "data": property(lambda self: fw("data").fget(self), checked_data),
        # a record without its first value is not worth writing
        "empty": property(lambda self: fw("empty").fget(self) or fw("data").fget(self)[:1] in ([None], "")),
        "is_first": property(lambda self: fw("previous").fget(self) is None),
        "is_last": property(lambda self: fw("next").fget(self) is None),
        "next": property(lambda self: fw("next").fget(self), lambda self, b: fw("next").fset(self, b)),
        "previous": property(lambda self: fw("previous").fget(self), lambda self, b: fw("previous").fset(self, b)),
        "custom_properties": property(lambda self: list(fw("custom_properties").fget(self))),
    }
    return {n: own[n] for n in names if n in own}


def select(fc, how, classes):
    """the class's tables changed through the public ways: set_version(name), or REGISTERS assigned"""
    if how is None:
        return
    if isinstance(how, str):
        fc.set_version(how)
    else:
        fc.REGISTERS = [classes[i] for i in how if classes[i] is not None]


def ask(f, t, how):
    """one of the public ways of asking a file for the registers of a type"""
    if how == "view":
        f._as_df(t)
    elif how == "of_type":
        for _ in f.data.of_type(t):
            pass
    elif how == "getter":
        f.data.get_registers_of_type(t)
    elif how == "all_types":
        for c in list(dict.fromkeys(type(r) for r in f.data)):
            f._as_df(c)


def enc_cell(x):
    import numpy as np
    import pandas as pd

    if x is None or x is pd.NaT or (isinstance(x, float) and x != x):
        return None
    try:
        if pd.isnull(x):
            return None
    except (TypeError, ValueError):
        pass
    if isinstance(x, (bool, np.bool_)):
        return {"f": codec.f2bits(float(x))}
    if isinstance(x, (int, float, np.integer, np.floating)):
        return {"f": codec.f2bits(float(x))}
    if isinstance(x, str):
        return {"s": codec.enc_str(x)}
    if isinstance(x, datetime):
        return {"d": [x.year, x.month, x.day, x.hour, x.minute, x.second, x.microsecond]}
    return {"s": codec.enc_str("?" + type(x).__name__)}


def run_impl(case):
    try:
        import pandas as pd

        classes, f, regs = build(case)
        t = classes[case["type"]] if case["type"] != 3 else type("Foreign", (object,), {})
        if case.get("warm"):
            # views (and property lists) of the OTHER types were asked for earlier in the same process:
            # what a type's view shows does not depend on which types were viewed before
            for i, c in enumerate(classes):
                if c is not None and i != case["type"]:
                    f._as_df(c)
                    c().custom_properties
        if case.get("edit"):
            # a caller was handed the list of user-defined properties earlier (from a fresh register of the type
            # and from the registers in the file) and changed ITS list in place, e.g. to pick the columns of a
            # report of its own: the answers observed below are the same as without that
            who = [i for i, c in enumerate(classes) if c is not None and (case["edit"]["who"] == "all" or i == case["type"])]
            for i in who:
                edit_in_place(classes[i]().custom_properties, case["edit"]["how"])
            for r in regs:
                if any(type(r) is classes[i] for i in who):
                    edit_in_place(r.custom_properties, case["edit"]["how"])
        sel = list((case.get("tables") or {}).get("select") or []) + [None] * 3
        # the file class goes to another version (an older / newer file is about to be read with it) before the
        # object built above is viewed, and again between the views: the object's registers are what is shown
        select(type(f), sel[0], classes)
        before = [[codec.enc_val(v) for v in (r.data if isinstance(r.data, list) else [r.data])] for r in regs]
        probe = classes[case["type"]]() if case["type"] != 3 else None
        cp = [codec.enc_str(n) for n in (probe.custom_properties if probe is not None else [])]
        df = f._as_df(t)
        cols = [codec.enc_str(str(c)) for c in df.columns]
        nrows = int(df.shape[0])
        cells = [[enc_cell(df.iloc[i, j]) for j in range(df.shape[1])] for i in range(nrows)]
        # edit every cell of the frame, then look at the registers again
        for j in range(df.shape[1]):
            col = df.columns[j]
            try:
                df[col] = [None] * nrows
            except Exception:
                pass
            try:
                df[col] = list(range(100, 100 + nrows))
            except Exception:
                pass
        try:
            df.drop(df.index, inplace=True)
        except Exception:
            pass
        after = [[codec.enc_val(v) for v in (r.data if isinstance(r.data, list) else [r.data])] for r in regs]
        out = {"custom_properties": cp, "columns": cols, "nrows": nrows, "cells": cells, "data_unchanged": before == after}
        # the view asked for AGAIN from the same file: after the first frame was edited, and after the
        # registers of the type exchanged their values in place (first <-> last); each view must show
        # what the registers hold at that moment
        select(type(f), sel[1], classes)
        out["second_view"] = view_vs_registers(f, t)
        select(type(f), sel[2], classes)
        mine = [r for r in regs if isinstance(r, t) and isinstance(r.data, list)] if isinstance(t, type) else []
        if len(mine) >= 2:
            mine[0].data, mine[-1].data = mine[-1].data, mine[0].data
        out["third_view"] = view_vs_registers(f, t)
        return out
    except Exception as e:
        return codec.enc_exc(e)


EDITS = ["remove_first", "remove_last", "append_new", "append_attr", "clear", "reverse", "sort_desc", "overwrite"]


def edit_in_place(lst, how):
    """the caller's edit of a list it was handed (the list is the caller's own)"""
    if how == "remove_first" and lst:
        lst.remove(lst[0])
    elif how == "remove_last" and lst:
        lst.pop()
    elif how == "append_new":
        lst.append("report_column")
    elif how == "append_attr":
        lst.append("data")
    elif how == "clear":
        lst.clear()
    elif how == "reverse":
        lst.reverse()
    elif how == "sort_desc":
        lst.sort(reverse=True)
    elif how == "overwrite":
        lst[:] = ["x_" + n for n in lst] + ["is_first"]


def view_vs_registers(f, t):
    """[view as (columns, cells)] and the same table taken directly from the registers of the type"""
    df = f._as_df(t)
    got = [[codec.enc_str(str(c)) for c in df.columns], [[enc_cell(df.iloc[i, j]) for j in range(df.shape[1])] for i in range(int(df.shape[0]))]]
    regs = [r for r in f.data if isinstance(t, type) and isinstance(r, t)]  # the chain itself, in file order
    # the columns are the user-defined properties of the TYPE asked for (not of whichever class the first
    # register happens to have: registers of a derived type that adds properties are registers of the type too)
    cols = t().custom_properties if regs and isinstance(t, type) else []
    direct = [[codec.enc_str(c) for c in cols], [[enc_cell(getattr(r, c)) for c in cols] for r in regs] if cols else []]
    return {"got": got, "direct": direct}


def props_of(case):
    if case["type"] in (0, 1):
        return case["props"]
    if case["type"] == 4:
        # K4's own table: the first inherited property is overridden (it reads another position)
        ps = [list(p) for p in case["props"]]
        if ps:
            ps[0][1] = OVERRIDE_INDEX
        return ps + [[codec.enc_str(OWN), 1]]
    return [[codec.enc_str("other"), 0]] if case["type"] == 2 else []


def request(case, obs):
    if "harness_exc" in obs:
        obs = {"exc": "harness"}
    regs = [[c, vals] for c, vals in case["regs"]]
    if case["type"] in (0, 1) and case["props"]:
        # in a view of the parent type the model reads every row through the parent's table; a K4 register
        # answers through its own (overriding) property: hand the model the value that property gives
        i0 = case["props"][0][1]
        regs = [[c, (vals[:i0] + [vals[OVERRIDE_INDEX] if OVERRIDE_INDEX < len(vals) else None] + vals[i0 + 1 :]) if c == 4 and i0 < len(vals) else vals] for c, vals in regs]
    return {"op": "c20", "regs": regs, "parents": PARENTS + [None, 0], "type": case["type"], "props": props_of(case), "obs": obs}


def judge(case, obs, resp):
    if "error" in resp:
        return {"status": "error", "why": resp["error"]}
    if "harness_exc" in obs:
        return {"status": "error", "why": f"harness: {obs['harness_exc']} {obs.get('msg')}"}
    if not resp["indomain"]:
        return {"status": "skip", "why": "outside the domain"}
    if not resp["model_holds"]:
        return {"status": "error", "why": f"the MODEL violates Spec.C20.holds: {resp.get('model')}"}
    if "exc" in obs:
        return {"status": "oracle", "why": f"_as_df raised {obs['exc']}: {obs.get('msg')}"}
    if not resp["holds"]:
        m = resp["model"]
        bad = [k for k in m if m[k] != obs.get(k)]
        return {"status": "oracle", "why": f"{bad} wrong: got { {k: show(obs.get(k)) for k in bad} } required { {k: show(m[k]) for k in bad} }"}
    if not resp["agree"]:
        return {"status": "corr", "why": "model and implementation disagree"}
    for k, what in (("second_view", "asked for again after the first frame was edited"), ("third_view", "asked for again after the first and last register of the type exchanged their values")):
        v = obs.get(k)
        if v and v["got"] != v["direct"]:
            return {"status": "oracle", "why": f"the view {what} shows columns {show(v['got'][0])} cells {v['got'][1]}; the registers hold columns {show(v['direct'][0])} cells {v['direct'][1]}"}
    return {"status": "ok", "why": ""}


def show(x):
    if isinstance(x, list) and x and isinstance(x[0], list) and x[0] and isinstance(x[0][0], int):
        return [codec.dec_str(n) for n in x]
    return x


def nontrivial(case):
    return len(case["props"]) > 0 and any(c in (0, 1, 4) for c, _ in case["regs"]) and case["type"] in (0, 1, 4)


def features(case, obs):
    f = [f"nprops={len(case['props'])}", f"type={case['type']}", f"nregs_of_type={sum(1 for c, _ in case['regs'] if c in ((0, 1) if case['type'] == 0 else (case['type'],)))}"]
    if any(v is None for c, vals in case["regs"] for v in vals):
        f.append("missing_values")
    if any(c == 3 for c, _ in case["regs"]):
        f.append("free_text_interleaved")
    if any(c == 2 for c, _ in case["regs"]):
        f.append("other_type_interleaved")
    if case.get("edit"):
        f.append(f"returned_list_edited={case['edit']['how']}/{case['edit']['who']}")
    if case.get("gone"):
        f.append(f"registers_removed_earlier={len(case['gone']['regs'])}/asked={case['gone'].get('asked')}")
    if case.get("tables"):
        f.append(f"file_class_tables/select={sum(1 for x in case['tables'].get('select', []) if x is not None)}")
    if case.get("refine"):
        f.append(f"framework_properties_refined={len(case['refine']['names'])}/on={case['refine']['on']}")
    if isinstance(obs, dict) and "nrows" in obs:
        f.append("empty_view" if obs["nrows"] == 0 else "non_empty_view")
    return f


def signature(rec):
    return rec["verdict"]["why"][:20]


def matches_known(trigger, case):
    return False


def snippet(case):
    return f"""import sys; sys.path.insert(0, '/verif/harness'); sys.path.insert(0, '/repo')
from props import c20
case = {json.dumps(case)}
print(c20.run_impl(case))
"""


KINDS = ["int", "flt", "str", "date"]


def rand_val(rng, kind):
    if rng.random() < 0.2:
        return None
    if kind == "int":
        return {"i": rng.choice([0, 1, -3, 12345, 2**40])}
    if kind == "flt":
        return codec.enc_val(rng.choice([0.0, 1.5, -2.25, 1e10, 3.0]))
    if kind == "str":
        return {"s": codec.enc_str(rng.choice(["", "ab", "x y", "é"]))}
    return {"d": [rng.randrange(1990, 2030), rng.randrange(1, 13), rng.randrange(1, 29), rng.randrange(24), 0, 0, 0]}


def random_case(rng):
    nprops = rng.randrange(0, 6)
    names = rng.sample(NAME_POOL, nprops)
    kinds = [rng.choice(KINDS) for _ in range(max(nprops, 1) + 1)]
    props = [[codec.enc_str(n), i] for i, n in enumerate(names)]
    regs = []
    for _ in range(rng.randrange(0, 12)):
        c = rng.choice([0, 0, 0, 1, 2, 3, 4])
        regs.append([c, [] if c == 3 else [rand_val(rng, kinds[i]) for i in range(len(kinds))]])
    t = rng.choice([0, 0, 0, 1, 2, 3, 4, 4])
    if t == 4:
        # registers of the derived type that adds a property, interleaved with its parent's and others
        regs = [[rng.choice([4, 4, 4, 0, 2, 3]) if c != 3 else 3, vals] for c, vals in regs]
        regs = [[c, [] if c == 3 else (vals or [rand_val(rng, kinds[i]) for i in range(len(kinds))])] for c, vals in regs]
    if rng.random() < 0.12:
        # every register of the requested type (and its subclasses) has all its values missing:
        # the view must still have one row of nulls per register
        for r in regs:
            if r[0] != 3:
                r[1] = [None] * len(r[1])
    case = {"props": props, "regs": regs, "type": t, "route": rng.choice(["append", "append", "insertions"]), "warm": rng.random() < 0.4}
    if rng.random() < 0.4:
        # the file held more registers earlier: fresh ones, or copies (same class, same values) of registers
        # that stay - a record entered twice, one entry deleted again
        extra = []
        for _ in range(rng.randrange(1, 4)):
            pos = rng.randrange(0, len(regs) + 1)
            if regs and rng.random() < 0.6:
                c, vals = rng.choice(regs)
                extra.append([pos, c, list(vals)])
            else:
                c = rng.choice([0, 0, 1, 2, 3, 4])
                extra.append([pos, c, [] if c == 3 else [rand_val(rng, kinds[i]) for i in range(len(kinds))]])
        case["gone"] = {"regs": extra, "asked": rng.choice(["view", "view", "of_type", "getter", "all_types", "none"]), "order": rng.choice(["forwards", "backwards"]), "again": rng.random() < 0.5}
    if rng.random() < 0.35:
        case["edit"] = {"how": rng.choice(EDITS), "who": rng.choice(["type", "type", "all"])}
    # a separate stream for the file-class dimension: the draws above stay what they were
    r2 = random.Random("tables:" + json.dumps(case, sort_keys=True))
    if r2.random() < 0.4:
        case["tables"] = random_tables(r2)
    # a separate stream for the types that refine framework properties: the draws above stay what they were
    r3 = random.Random("refine:" + json.dumps(case, sort_keys=True))
    if r3.random() < 0.4:
        on = r3.choice([[0], [0], [t if t != 3 else 0], [4], [1], [2], [0, 4], [0, 1, 2, 4]])
        case["refine"] = {"names": r3.sample(FRAMEWORK_NAMES, r3.randrange(1, 4)), "on": on}
    return case


VERSION_NAMES = ["v1", "v2", "v3"]


def random_tables(r2):
    """a derived file class: identifiers of the types, REGISTERS, VERSIONS, and what is selected when"""
    idpool = ["PL", "PL", "XX", "", None]
    ids = {"0": r2.choice(["PL", "PL", ""]), "1": r2.choice([None, None, "PL", "XX"]), "2": r2.choice(idpool), "4": r2.choice([None, None, "PL", "XX"])}

    def table():
        return r2.sample([0, 1, 2, 4], r2.randrange(1, 4))

    names = VERSION_NAMES[: r2.randrange(2, 4)]
    versions = [[n, table()] for n in names]

    def sel(p):
        if r2.random() >= p:
            return None
        return table() if r2.random() < 0.2 else r2.choice(names + ["v9"])

    return {"ids": ids, "registers": table(), "versions": versions, "first": sel(0.5), "select": [sel(0.8), sel(0.4), sel(0.4)]}


def corpus_cases():
    d = Path(__file__).resolve().parent.parent.parent / "corpus" / PROP
    out = []
    if d.exists():
        for f in sorted(d.glob("*.json")):
            j = json.loads(f.read_text())
            out.append(j["case"] if "case" in j else j)
    return out


def chunks(tier, seed):
    ch = [{"kind": "corpus"}]
    nrand = {"quick": 1600, "thorough": 120000}.get(tier, 4000)
    per = max(1, nrand // 16)
    for i in range(16):
        ch.append({"kind": "random", "seed": seed * 1000 + i, "n": per})
    return ch


def cases_of(chunk):
    if chunk["kind"] == "corpus":
        yield from corpus_cases()
    else:
        rng = random.Random(chunk["seed"])
        for _ in range(chunk["n"]):
            yield random_case(rng)


def shrinks(case):
    r = case["regs"]
    g = case.get("gone")
    for i in range(len(r)):
        c2 = {**case, "regs": r[:i] + r[i + 1 :]}
        if g:
            c2["gone"] = {**g, "regs": [[p - 1 if p > i else p, c, v] for p, c, v in g["regs"]]}
        yield c2
    if g:
        yield {k: v for k, v in case.items() if k != "gone"}
        for i in range(len(g["regs"])):
            if len(g["regs"]) > 1:
                yield {**case, "gone": {**g, "regs": g["regs"][:i] + g["regs"][i + 1 :]}}
        if g.get("again"):
            yield {**case, "gone": {**g, "again": False}}
    p = case["props"]
    for i in range(len(p)):
        yield {**case, "props": p[:i] + p[i + 1 :]}
    if case.get("warm"):
        yield {**case, "warm": False}
    tb = case.get("tables")
    if tb:
        yield {k: v for k, v in case.items() if k != "tables"}
        if tb.get("first") is not None:
            yield {**case, "tables": {**tb, "first": None}}
        for i, x in enumerate(tb.get("select", [])):
            if x is not None:
                yield {**case, "tables": {**tb, "select": [None if j == i else y for j, y in enumerate(tb["select"])]}}
        for k in tb["ids"]:
            if tb["ids"][k] is not None and k != "0":
                yield {**case, "tables": {**tb, "ids": {**tb["ids"], k: None}}}
    rf = case.get("refine")
    if rf:
        yield {k: v for k, v in case.items() if k != "refine"}
        for key in ("names", "on"):
            if len(rf[key]) > 1:
                for i in range(len(rf[key])):
                    yield {**case, "refine": {**rf, key: rf[key][:i] + rf[key][i + 1 :]}}
    if case.get("edit"):
        yield {k: v for k, v in case.items() if k != "edit"}
        if case["edit"]["who"] == "all":
            yield {**case, "edit": {**case["edit"], "who": "type"}}
