"""C01 — positional text write->read round trip is value-preserving and text-stable."""
from __future__ import annotations

import json
import math
import random
import struct
import zlib
from datetime import datetime
from pathlib import Path

import codec

PROP = "C01"
LEAN_MODULES = ["Props.C01", "Props.C01F", "Props.C01E", "Props.Legacy"]
RULE = (
    "case = (positional layout of 1-8 fields of mixed kinds in any order with gaps, value list, optional construction "
    "history through the Line setters incl. intermediate delimited use). The real Line writes the values, reads the "
    "text back and writes what it read; (written, read_back, rewritten) is compared with the Lean model's cycle and "
    "judged by Spec.C01.holds (rewritten == written; read_back == canonical values; floats in the configured "
    "notation/separator, within half a unit of the last emitted decimal in exact arithmetic when |x|*10^D < 2^51, "
    "maximal number of decimals). Float values come from five families: decimal ties (exact and +-1 ulp), 9.99.. "
    "carries, magnitude sweep, random bit patterns, +-0/tiny; widths around the fitting threshold so that 0, some or "
    "all decimals must be dropped. In-domain is decided by Spec.C01.inDomain (non-fitting cases are skipped and "
    "counted). non-trivial = at least one non-missing value; distinct by full case. A quarter of the cases put a "
    "warm-up history through the SAME Line object before the observed cycle (1-3 earlier records read from text "
    "composed outside the line in any dialect the reader accepts — every format of a date field's list, either float "
    "notation, left/right aligned, blank, garbage, short lines — and earlier writes of other values); the model "
    "computes the cycle without the history, so anything an earlier use leaves behind in the line or its fields shows. "
    "A quarter of the cases (drawn independently) INTERLEAVE the three stages of the observed cycle with other uses of the "
    "same Line object: between the write and the read, and between the read and the re-write, the line reads the text under "
    "test again, reads foreign records, writes other value lists or writes the values under test once more (0-3 such steps per "
    "gap), so the text that is read is in general not what the line wrote last and the values re-written are not what it read "
    "last; the model's cycle has no such steps, the stages must not depend on them."
)
ASSUMPTIONS = [
    "E notation only with decimal_digits <= 12 (libm log10 vs exact floor(log10), DESIGN appendix A)",
    "date formats within %Y %m %d %H %M %S %y %f %% and uncased separators, truncated dates valid, year >= 1000",
    "decimal separator is one character that cannot be part of a numeral",
    "half-unit accuracy is claimed (and checked) only under |x|*10^D < 2^51; outside it the double rounding of round()+format() can exceed half a unit, text equality with the exact model is still required",
]
TRUSTED = ["CPython round()/format()/float()/int()/strftime/strptime are correctly rounded / as documented; the model computes the same results exactly and is compared with them on every case"]
NOT_THEOREMS = ['the float clauses of Spec.C01.holds (half-unit accuracy) for E-notation float fields holding a value in the one decimal decade 10^(decimals-323) <= |x| < 10^(decimals-322) (subnormal values whose last emitted digit has place value 10^-323, about two subnormal steps): the clause is FALSE at eight of them (K2 = Props.C01.subnormal_E_counterexample, k2_in_band) and is evaluated per case there; read-back and text stability ARE theorems for every finite double in E-notation fields too (Props.C01.main_FE with floatFB_all: the ranges wfB / zero / wfFine leave nothing out). It IS a theorem for F notation (every finite double, the largest one included, with the decimals-dropping loop: Props.C01.main_F_full) and for E notation with zero, every normal double, every subnormal double from 10^(decimals-322) on (Proofs.FloatE.wfE) and every subnormal double below 10^(decimals-323) (wfFine: round() returns its argument, one correct rounding; Props.C01.main_FE_full); the read-back clause is a theorem for every layout in Spec.C01.inDomain (Props.C01.readBack_of_inDomain)']
EXHAUSTIVE = {"quick": False, "thorough": False}

DATE_FMTS = ["%Y/%m/%d", "%d/%m/%Y", "%Y-%m-%d %H:%M", "%d%m%y", "%H:%M:%S", "%Y%m%d%H%M%S", "%d/%m/%Y %H:%M:%S.%f", "%m/%Y", "%y-%m-%d",
             # formats that also parse each other's output, with a different result (day <= 12): in a list the FIRST one that parses wins
             "%m/%d/%Y", "%m%d%y", "%y%m%d", "%d-%m-%y"]


def mk_line(case):
    from cfinterface.components.line import Line

    fields = [codec.mk_field(fd) for fd in case["fields"]]
    build = case.get("build")
    if not build:
        return Line(fields)
    decoy = [codec.mk_field(fd) for fd in case.get("decoy", [])]
    pools = {"F": fields, "D": decoy}

    def delim(d):
        return None if d is None else codec.dec_str(d)

    ln = None
    for st in build:
        op = st[0]
        if op == "ctor":
            ln = Line(pools[st[1]], values=None, delimiter=delim(st[2]), storage=st[3])
        elif op == "fields":
            ln.fields = pools[st[1]]
        elif op == "delimiter":
            ln.delimiter = delim(st[1])
        elif op == "storage":
            ln.storage = st[1]
        elif op == "values":
            ln.values = [codec.dec_val(v) for v in st[1]]
        elif op == "read":
            try:
                ln.read(codec.dec_str(st[1]))
            except Exception:
                pass
        elif op == "write":
            try:
                ln.write([codec.dec_val(v) for v in st[1]])
            except Exception:
                pass
    return ln


def final_config_ok(case):
    """the construction history must end in (fields=F, delimiter=None, text storage)"""
    b = case.get("build")
    if not b:
        return True
    if b[0][0] != "ctor":
        return False
    cur = {"fields": b[0][1], "delim": b[0][2], "storage": b[0][3]}
    for st in b[1:]:
        if st[0] == "ctor":
            return False
        if st[0] == "fields":
            cur["fields"] = st[1]
        elif st[0] == "delimiter":
            cur["delim"] = st[1]
        elif st[0] == "storage":
            cur["storage"] = st[1]
    return cur["fields"] == "F" and cur["delim"] is None and cur["storage"] != "BINARY"


def run_impl(case):
    try:
        ln = mk_line(case)
        vals = [codec.dec_val(v) for v in case["values"]]
        for st in case.get("warm") or []:
            # earlier uses of the same object (legitimate reads / writes of other records); whatever they
            # return or raise is not the matter here, the cycle observed below must not depend on them
            try:
                if st[0] == "read":
                    ln.read(codec.dec_str(st[1]))
                elif st[0] == "write":
                    ln.write([codec.dec_val(v) for v in st[1]])
            except Exception:
                pass
        mid = case.get("mid") or [[], []]
        if case.get("prior"):
            # an earlier record goes through the SAME line object first (a file reader/writer reuses one
            # Line per register class); the text of the record under test is produced by a second, fresh
            # line so that it is READ by `ln` without having been written by it
            ln.read(ln.write([codec.dec_val(v) for v in case["prior"]]))
            w = mk_line({k: v for k, v in case.items() if k != "build"}).write(vals)
        else:
            w = ln.write(vals)
        between(ln, mid[0], w, vals)
        r = ln.read(w)
        between(ln, mid[1], w, vals)
        w2 = ln.write(r)
        if not isinstance(w, str) or not isinstance(w2, str):
            return {"exc": "NotStr", "msg": f"{type(w).__name__}"}
        return {"written": codec.enc_str(w), "read_back": [codec.enc_val(x) for x in r], "rewritten": codec.enc_str(w2)}
    except Exception as e:
        return codec.enc_exc(e)


def between(ln, steps, w, vals):
    """other uses of the same Line object between two stages of the observed cycle (what they return or raise
    is not the matter here; the stages must not depend on them)"""
    for st in steps:
        try:
            if st[0] == "read":
                ln.read(codec.dec_str(st[1]))
            elif st[0] == "write":
                ln.write([codec.dec_val(v) for v in st[1]])
            elif st[0] == "reread" and isinstance(w, str):
                ln.read(w)
            elif st[0] == "rewrite":
                ln.write(list(vals))
        except Exception:
            pass


def request(case, obs):
    if "harness_exc" in obs:
        obs = {"exc": "harness"}
    return {"op": "c01", "fields": case["fields"], "values": case["values"], "obs": obs}


def judge(case, obs, resp):
    v = judge0(case, obs, resp)
    if case.get("warm") and v["status"] in ("oracle", "corr"):
        w = case["warm"]
        v = dict(v, why=v["why"] + f" [the same Line object had been used before: {sum(1 for s in w if s[0] == 'read')} earlier read(s), "
                 f"{sum(1 for s in w if s[0] == 'write')} earlier write(s) of other records; the cycle must not depend on them]")
    if case.get("mid") and v["status"] in ("oracle", "corr"):
        a, b = case["mid"]
        v = dict(v, why=v["why"] + f" [the same Line object was used for other records between the stages of the cycle: {show_steps(a)} between "
                 f"the write and the read, {show_steps(b)} between the read and the re-write; the stages must not depend on them]")
    return v


def show_steps(steps):
    names = {"read": "read of a foreign record", "write": "write of other values", "reread": "read of the text under test", "rewrite": "write of the values under test"}
    return ", ".join(names.get(st[0], st[0]) for st in steps) or "nothing"


def judge0(case, obs, resp):
    if "error" in resp:
        return {"status": "error", "why": resp["error"]}
    if "harness_exc" in obs:
        return {"status": "error", "why": f"harness: {obs['harness_exc']} {obs.get('msg')}"}
    if not resp["indomain"] or not final_config_ok(case):
        return {"status": "skip", "why": "value does not fit / outside the domain"}
    if any(fd["k"] == "flt" and codec.dec_str(fd["fmt"]) in "Ee" and isinstance(v, dict) and "f" in v and libm_log10_off(codec.dec_val(v))
           for fd, v in zip(case["fields"], case["values"])):
        return {"status": "skip", "why": "E notation, subnormal value for which libm's log10 is off by one at a power of ten: outside the modelled domain"}
    if not resp["model_holds"]:
        if resp.get("agree") and not resp["holds"] and "exc" not in obs:
            # the exact model and the implementation agree and the statement fails for both: a failing input of the
            # property itself (only possible outside the ranges of the float theorems: NOT_THEOREMS)
            return {"status": "oracle", "why": f"{'; '.join(resp.get('clauses', []))} (the exact model agrees with the implementation): got {show_obs(obs)}"}
        return {"status": "error", "why": f"the MODEL's cycle violates Spec.C01.holds: {show_obs(resp.get('model'))}"}
    if "exc" in obs:
        return {"status": "oracle", "why": f"write/read cycle raised {obs['exc']}: {obs.get('msg')}"}
    if not resp["holds"]:
        return {"status": "oracle", "why": f"{'; '.join(resp.get('clauses', []))}: got {show_obs(obs)}; exact model {show_obs(resp.get('model'))}"}
    if not resp["agree"]:
        return {"status": "corr", "why": f"model {show_obs(resp.get('model'))} vs implementation {show_obs(obs)}"}
    return {"status": "ok", "why": ""}


def show_obs(o):
    if not o or "written" not in o:
        return str(o)
    return f"written={codec.dec_str(o['written'])!r} read={[show_val(v) for v in o['read_back']]} rewritten={codec.dec_str(o['rewritten'])!r}"


def show_val(v):
    try:
        return repr(codec.dec_val(v))
    except Exception:
        return str(v)


def nontrivial(case):
    return any(v is not None for v in case["values"])


def features(case, obs):
    f = [f"nfields={len(case['fields'])}", "built_by_setters" if case.get("build") else "built_by_ctor"]
    if case.get("prior"):
        f.append("after_a_prior_record_through_the_same_line")
    if case.get("warm"):
        f.append("warm_up_history_on_the_same_line")
        f += sorted({f"warm_step={st[0]}" for st in case["warm"]})
    if case.get("mid"):
        f.append("other_uses_between_the_stages_of_the_cycle")
        f += sorted({f"mid_step={st[0]}" for g in case["mid"] for st in g})
    for fd, v in zip(case["fields"], case["values"]):
        f.append(f"kind={fd['k']}" + (":" + codec.dec_str(fd["fmt"]).upper() if fd["k"] == "flt" else ""))
        if v is None or (isinstance(v, dict) and ("nat" in v or v.get("f") == codec.NAN_BITS)):
            f.append("missing_value")
    if "fam" in case:
        f += [f"float_family={x}" for x in case["fam"]]
    return f


def signature(rec):
    return (rec["resp"].get("clauses") or [rec["verdict"]["why"][:30]])[0][:40]


# K2 (KNOWN_FINDINGS.txt): the eight subnormal doubles m * 2^-1074 that an E-notation field of `dec` decimals
# (dec <= 12) writes more than half a unit of the last decimal away from the value. (dec, m):
K2_INPUTS = {(1, 21), (2, 203), (4, 20241), (5, 202403), (7, 20240226), (8, 202402254), (11, 202402253308), (12, 2024022533074)}


def matches_known(trigger, case):
    if trigger != "e_subnormal_coarse_grid":
        return False
    hit = False
    for fd, v in zip(case["fields"], case["values"]):
        if fd["k"] == "flt" and codec.dec_str(fd["fmt"]) in "Ee" and isinstance(v, dict) and "f" in v:
            x = codec.dec_val(v)
            if x == x and abs(x) < 2.0**-1022 and (fd["dec"], int(abs(x) / 5e-324)) in K2_INPUTS:
                hit = True
    if not hit:
        return False
    # the finding is about the ACCURACY of the text only: the cycle itself must still be stable (anything else
    # that goes wrong with such a value is a different violation and is reported)
    obs = run_impl(case)
    return "written" in obs and obs["rewritten"] == obs["written"]


def snippet(case):
    return f"""import sys; sys.path.insert(0, '/verif/harness'); sys.path.insert(0, '/repo')
from props import c01
case = {json.dumps(case)}
print(c01.show_obs(c01.run_impl(case)))
"""


# ------------------------------------------------------------------ generators
def ulp_step(x, k):
    b = struct.unpack("<q", struct.pack("<d", x))[0]
    return struct.unpack("<d", struct.pack("<q", b + k))[0]


def exact_floor_log10(x):
    """floor(log10(|x|)) in exact arithmetic (x finite, non-zero)"""
    from fractions import Fraction

    a = Fraction(abs(x))
    k = int(math.floor(math.log10(abs(x))))
    while Fraction(10) ** k > a:
        k -= 1
    while Fraction(10) ** (k + 1) <= a:
        k += 1
    return k


def libm_log10_off(x):
    """libm's log10 rounds to the integer just above for values a few ulps below a power of ten, so that the
    writer's floor(log10(|x|)) is one more than the true decimal exponent. For a normal double the text written in E
    notation (<= 12 decimals) is the same either way — the model uses the exact exponent and the correspondence
    confirms it on every run. For a SUBNORMAL value, whose relative grid (1/m) is coarser than 10^-13, the text
    differs (20240225330730 * 2^-1074 in 12 decimals: 1.000000000000E-310 with libm's exponent,
    9.999999999999E-311 with the exact one; both texts meet the property). libm is outside the model: such
    inputs are outside the modelled domain (not generated; skipped when replayed)."""
    if x != x or x in (0.0, float("inf"), float("-inf")) or abs(x) >= 2.0**-1022:
        return False
    return int(math.floor(math.log10(abs(x)))) != exact_floor_log10(x)


def float_value(rng, dec):
    for _ in range(20):
        x, fam = float_value_raw(rng, dec)
        if not libm_log10_off(x):
            return x, fam
    return 5e-324, "subnormal"


def float_value_raw(rng, dec):
    fam = rng.choice(["tie", "carry", "magnitude", "bits", "zero_tiny", "plain", "plain", "subnormal"])
    if fam == "tie":
        d = rng.randrange(0, dec + 2)
        k = rng.randrange(-10 ** rng.randrange(1, 8), 10 ** rng.randrange(1, 8))
        x = (2 * k + 1) / (2 * 10 ** d)
        x = ulp_step(x, rng.choice([-1, 0, 0, 1])) if x != 0 else x
    elif fam == "carry":
        n = rng.randrange(1, 9)
        x = float("9" * n + "." + "9" * rng.randrange(1, 12))
        if rng.random() < 0.5:
            x = x - 10.0 ** (-rng.randrange(1, 10))
        if rng.random() < 0.5:
            x = -x
    elif fam == "magnitude":
        x = rng.choice([-1, 1]) * rng.uniform(1, 10) * 10.0 ** rng.randrange(-30, 31)
    elif fam == "bits":
        while True:
            x = struct.unpack("<d", struct.pack("<Q", rng.getrandbits(64)))[0]
            if math.isfinite(x):
                break
        if rng.random() < 0.7:  # keep a good share in a printable range
            x = math.ldexp(math.frexp(x)[0], rng.randrange(-40, 60))
    elif fam == "subnormal":
        # m * 2^-1074: around a power of ten (where one unit of the last decimal of an E-notation text is a few
        # subnormal steps: the neighbours of the inputs of known finding K2) or anywhere below 2^52
        if rng.random() < 0.6:
            m = int(10 ** rng.randrange(-323, -307) / 5e-324) + rng.randrange(-3, 4)
        else:
            m = rng.getrandbits(rng.randrange(1, 53))
        x = rng.choice([-1, 1]) * max(1, min(m, 2**52 - 1)) * 5e-324
    elif fam == "zero_tiny":
        x = rng.choice([0.0, -0.0, 5e-324, -5e-324, 1e-300, 4.9e-5, -4.9e-5, 0.5, -0.5, 0.05, 0.005, 0.0005])
    else:
        x = round(rng.uniform(-10000, 10000), rng.randrange(0, 6))
    return x, fam


def f_width(x, d, fmt):
    return len("{:.{d}{f}}".format(round(x, d), d=d, f=fmt))


def make_field(rng, pos, fam_out):
    k = rng.choice(["int", "lit", "flt", "flt", "date"])
    if k == "int":
        size = rng.randrange(1, 19)
        digits = rng.randrange(1, size + 1)
        n = rng.randrange(10 ** (digits - 1) if digits > 1 else 0, 10**digits)
        if digits < size and rng.random() < 0.4:
            n = -n
        v = rng.choice([{"i": n}, {"i": n}, {"i": n}, None, {"i": 0}, codec.enc_val(float("nan")), {"nat": True}])
        return codec.fd_int(size, pos), v
    if k == "lit":
        size = rng.randrange(1, 21)
        w = rng.randrange(0, size + 1)
        alpha = "abcdefXYZ0123456789-_/.,;:éñßÇ" + "\"\"'`" + "   " + ("\xa0\u2003" if rng.random() < 0.1 else "")
        s = "".join(rng.choice(alpha) for _ in range(w))
        # missing markers of every sort (a literal column taken from a DataFrame carries its holes as NaN / NaT)
        v = rng.choice([{"s": codec.enc_str(s)}] * 5 + [None, {"s": []}, codec.enc_val(float("nan")), {"nat": True}])
        return codec.fd_lit(size, pos), v
    if k == "flt":
        fmt = rng.choice("FFFfEe")
        dec = rng.randrange(0, 13)
        sep = rng.choice("..,,")
        x, fam = float_value(rng, dec)
        fam_out.append(fam)
        if fmt in "Ee":
            try:
                full = len("{:.{d}{f}}".format(x, d=dec, f=fmt))
            except Exception:
                full = 12
            size = max(1, full + rng.choice([0, 0, 1, 3, -1]))
        else:
            d_fit = rng.randrange(0, dec + 1)
            size = max(1, f_width(x, d_fit, fmt) + rng.choice([0, 0, 0, 1, 2, -1]))
        v = rng.choice([codec.enc_val(x)] * 6 + [None, codec.enc_val(float("nan")), {"nat": True}])
        return codec.fd_flt(min(size, 40), pos, dec, fmt, sep), v
    # date
    nf = rng.choice([1, 1, 2, 3])
    fmts = rng.sample(DATE_FMTS, nf)
    t = datetime(rng.randrange(1000, 10000), rng.randrange(1, 13), rng.randrange(1, 29), rng.randrange(24), rng.randrange(60), rng.randrange(60), rng.choice([0, 0, rng.randrange(10**6)]))
    import pandas as pd  # noqa

    width = len(t.strftime(fmts[0]))
    size = width + rng.choice([0, 0, 1, 4])
    v = rng.choice([codec.enc_val(t)] * 5 + [None, {"nat": True}, codec.enc_val(float("nan"))])
    return codec.fd_date(size, pos, fmts), v


def random_case(rng):
    n = rng.randrange(1, 9)
    pos = 0
    fields, values, fam = [], [], []
    for _ in range(n):
        pos += rng.choice([0, 0, 1, 2, 5])
        fd, v = make_field(rng, pos, fam)
        fields.append(fd)
        values.append(v)
        pos += fd["size"]
    order = list(range(n))
    rng.shuffle(order)
    case = {"fields": [fields[i] for i in order], "values": [values[i] for i in order], "fam": sorted(set(fam))}
    if rng.random() < 0.35:
        case.update(random_build(rng, case))
    elif rng.random() < 0.3:
        # an earlier record with every value present, then this record with some values missing
        fam2 = []
        prior = []
        for fd in case["fields"]:
            pos = fd["start"]
            for _ in range(20):
                fd2, v2 = make_field(random.Random(rng.random()), pos, fam2)
                if fd2["k"] == fd["k"] and v2 is not None and not (isinstance(v2, dict) and "nat" in v2):
                    break
            else:
                v2 = None
            # the prior value must fit THIS field: reuse the record's own value when it is present
            prior.append(v2 if False else None)
        case["prior"] = [v if v is not None else None for v in case["values"]]
        case["values"] = [None if rng.random() < 0.5 else v for v in case["values"]]
    if rng.random() < 0.25:
        case["warm"] = random_warm(rng, case)
    # drawn from a generator of its own (derived from the case) so that the streams of the dimensions above stay as they are
    rng2 = random.Random(zlib.crc32(json.dumps(case, sort_keys=True).encode()))
    if rng2.random() < 0.25:
        case["mid"] = random_mid(rng2, case)
    return case


def other_values(rng, fields):
    vals = []
    for fd in fields:
        for _ in range(8):
            fd2, v2 = make_field(rng, fd["start"], [])
            if fd2["k"] == fd["k"]:
                break
        else:
            v2 = None
        vals.append(v2)
    return vals


def random_mid(rng, case):
    """other uses of the same Line object between the stages of the observed cycle: [steps between the write and
    the read, steps between the read and the re-write]; at least one step in all"""
    while True:
        gaps = []
        for _ in range(2):
            steps = []
            for _ in range(rng.choice([0, 1, 2, 2, 3])):
                r = rng.random()
                if r < 0.3:
                    steps.append(["reread"])
                elif r < 0.65:
                    steps.append(["write", other_values(rng, case["fields"])])
                elif r < 0.85:
                    steps.append(["read", codec.enc_str(foreign_text(rng, case["fields"]))])
                else:
                    steps.append(["rewrite"])
            gaps.append(steps)
        if gaps[0] or gaps[1]:
            return gaps


def foreign_text(rng, fields):
    """a record for this layout composed OUTSIDE the line, in any dialect its reader accepts (and sometimes
    in none): what a file written by another program holds"""
    end = max(fd["start"] + fd["size"] for fd in fields)
    buf = [" "] * end
    for fd in fields:
        k, size = fd["k"], fd["size"]
        r = rng.random()
        if r < 0.12:
            s = ""
        elif r < 0.2:
            s = rng.choice(["?", "--", "1.2.3", "x1", "99/99/9999"])
        elif k == "int":
            s = str(rng.randrange(-(10 ** rng.randrange(1, 6)), 10 ** rng.randrange(1, 10)))
        elif k == "lit":
            s = "".join(rng.choice("abcXYZ019 -_/.,é") for _ in range(rng.randrange(0, size + 1)))
        elif k == "flt":
            x = rng.choice([-1, 1, 1]) * rng.uniform(0, 10) * 10.0 ** rng.randrange(-4, 7)
            s = "{:.{d}{f}}".format(x, d=rng.randrange(0, 7), f=rng.choice("fFeE"))
            if rng.random() < 0.7:
                s = s.replace(".", codec.dec_str(fd["sep"]))
        else:
            t = datetime(rng.randrange(1000, 10000), rng.randrange(1, 13), rng.randrange(1, 29), rng.randrange(24), rng.randrange(60), rng.randrange(60), rng.choice([0, rng.randrange(10**6)]))
            s = t.strftime(codec.dec_str(rng.choice(fd["fmts"])))
        s = s[:size]
        s = s.ljust(size) if (k in ("lit", "date")) == (rng.random() < 0.8) else s.rjust(size)
        buf[fd["start"] : fd["start"] + size] = s
    text = "".join(buf)
    if rng.random() < 0.1:
        text = text[: rng.randrange(0, len(text) + 1)]
    return text + rng.choice(["\n", "\n", ""])


def random_warm(rng, case):
    """1-3 earlier uses of the same Line object: reads of foreign records, writes of other value lists"""
    steps = []
    for _ in range(rng.choice([1, 1, 2, 3])):
        if rng.random() < 0.7:
            steps.append(["read", codec.enc_str(foreign_text(rng, case["fields"]))])
        else:
            vals = []
            for fd in case["fields"]:
                for _ in range(8):
                    fd2, v2 = make_field(rng, fd["start"], [])
                    if fd2["k"] == fd["k"]:
                        break
                else:
                    v2 = None
                vals.append(v2)
            steps.append(["write", vals])
    return steps


def random_build(rng, case):
    """a construction history ending in (fields=F, delimiter=None, text storage)"""
    decoy = [codec.fd_int(3, 0), codec.fd_lit(4, 3)]
    steps = [["ctor", rng.choice("FD"), rng.choice([None, None, codec.enc_str(";")]), rng.choice(["", "TEXT", "BINARY"])]]
    cur = {"fields": steps[0][1], "delim": steps[0][2], "storage": steps[0][3]}
    for _ in range(rng.randrange(0, 6)):
        r = rng.random()
        if r < 0.3:
            p = rng.choice("FD")
            steps.append(["fields", p])
            cur["fields"] = p
        elif r < 0.5:
            d = rng.choice([None, codec.enc_str(";"), codec.enc_str("::")])
            steps.append(["delimiter", d])
            cur["delim"] = d
        elif r < 0.7:
            s = rng.choice(["", "TEXT", "BINARY"])
            steps.append(["storage", s])
            cur["storage"] = s
        elif r < 0.8:
            steps.append(["values", case["values"][: rng.randrange(0, len(case["values"]) + 1)]])
        elif r < 0.9 and cur["storage"] != "BINARY":
            steps.append(["read", codec.enc_str(rng.choice(["1;ab;3.5", "7", "  12 abcd 1.5", ""]))])
        elif cur["storage"] != "BINARY":
            steps.append(["write", [None] * rng.randrange(0, 3)])
    # finalisation in random order
    fin = []
    if cur["fields"] != "F":
        fin.append(["fields", "F"])
    if cur["delim"] is not None:
        fin.append(["delimiter", None])
    if cur["storage"] == "BINARY":
        fin.append(["storage", rng.choice(["", "TEXT"])])
    rng.shuffle(fin)
    return {"build": steps + fin, "decoy": decoy}


TIE_GRID_SIZES = [(s, d) for s in range(1, 9) for d in range(0, 5)]


def tie_grid_cases(rng, npoints):
    """every (size<=8, D<=4): values on and next to the rounding ties of each decimal position"""
    for size, dec in TIE_GRID_SIZES:
        for fmt, sep in (("F", "."), ("f", ",")):
            fd = codec.fd_flt(size, rng.choice([0, 2]), dec, fmt, sep)
            for _ in range(npoints):
                d = rng.randrange(0, dec + 1)
                k = rng.randrange(-(10 ** min(size, 6)), 10 ** min(size, 6))
                x = (2 * k + 1) / (2 * 10**d)
                x = ulp_step(x, rng.choice([-1, 0, 1])) if x != 0 else x
                yield {"fields": [fd], "values": [codec.enc_val(x)], "fam": ["tie_grid"]}


def corpus_cases():
    d = Path(__file__).resolve().parent.parent.parent / "corpus" / PROP
    out = []
    if d.exists():
        for f in sorted(d.glob("*.json")):
            j = json.loads(f.read_text())
            out.append(j["case"] if "case" in j else j)
    return out


def chunks(tier, seed):
    ch = [{"kind": "corpus"}]
    if tier == "quick":
        nrand, npts = 6000, 12
    elif tier == "thorough":
        nrand, npts = 800000, 1200
    else:
        nrand, npts = 20000, 40
    per = max(1, nrand // 16)
    for i in range(16):
        ch.append({"kind": "random", "seed": seed * 1000 + i, "n": per})
    for i in range(4):
        ch.append({"kind": "ties", "seed": seed * 1000 + 500 + i, "npts": max(1, npts // 4)})
    return ch


def cases_of(chunk):
    k = chunk["kind"]
    if k == "corpus":
        yield from corpus_cases()
    elif k == "random":
        rng = random.Random(chunk["seed"])
        for _ in range(chunk["n"]):
            yield random_case(rng)
    elif k == "ties":
        rng = random.Random(chunk["seed"])
        yield from tie_grid_cases(rng, chunk["npts"])


def shrinks(case):
    n = len(case["fields"])
    if n > 1:
        for i in range(n):
            yield {**case, "fields": case["fields"][:i] + case["fields"][i + 1 :], "values": case["values"][:i] + case["values"][i + 1 :], **({"prior": case["prior"][:i] + case["prior"][i + 1 :]} if case.get("prior") else {}),
                   **({"warm": [[st[0], st[1][:i] + st[1][i + 1 :]] if st[0] == "write" else st for st in case["warm"]]} if case.get("warm") else {}),
                   **({"mid": [[[st[0], st[1][:i] + st[1][i + 1 :]] if st[0] == "write" else st for st in g] for g in case["mid"]]} if case.get("mid") else {})}
    if case.get("prior"):
        yield {k: v for k, v in case.items() if k != "prior"}
    if case.get("warm"):
        w = case["warm"]
        if len(w) > 1:
            for i in range(len(w)):
                yield {**case, "warm": w[:i] + w[i + 1 :]}
        yield {k: v for k, v in case.items() if k != "warm"}
    if case.get("mid"):
        yield {k: v for k, v in case.items() if k != "mid"}
        for gi in range(2):
            g = case["mid"][gi]
            for i in range(len(g)):
                m = [list(x) for x in case["mid"]]
                m[gi] = g[:i] + g[i + 1 :]
                if m[0] or m[1]:
                    yield {**case, "mid": m}
    if case.get("build"):
        b = case["build"]
        for i in range(1, len(b)):
            yield {**case, "build": b[:i] + b[i + 1 :]}
        yield {k: v for k, v in case.items() if k not in ("build", "decoy")}
    for i, fd in enumerate(case["fields"]):
        if fd["start"] > 0:
            fd2 = dict(fd, start=0)
            others = [f for j, f in enumerate(case["fields"]) if j != i]
            if all(o["start"] >= fd2["size"] for o in others):
                yield {**case, "fields": case["fields"][:i] + [fd2] + case["fields"][i + 1 :]}
