"""C13 — section files: declared order, stream hand-off, leftovers kept verbatim."""
from __future__ import annotations

import json
import random
from io import StringIO
from pathlib import Path

import codec
import filesupport as fsup
from props import c12

PROP = "C13"
LEAN_MODULES = ["Props.C13"]
RULE = (
    "case = (0-4 raw-storing sections consuming a fixed number of lines or lines up to a pattern; text content from "
    "empty to longer than the sections consume, with and without final newline). SectionFile.read(x) then write on "
    "the real code; observed: class and raw data of every element, written output. Judged by Spec.C13.holds (elements "
    "= readSectionFile: the declared sections exactly once each, in declared order, each from where the previous one "
    "stopped, then one default section per remaining line; raw data concatenate to x; output == x) and compared with "
    "the model. non-trivial = at least one declared section and non-empty content; distinct by full case. "
    "Repeated writes: in about a third of the random cases (and a third of the enumerated ones) the one file object "
    "read from x is written 2-3 times in a row, each time to a fresh destination of its own (buffers, or paths of one "
    "directory); once all writes are done one of the destinations (chosen by the case) is looked at and its content is "
    "the observed output, which must be x exactly as the model computes it for a single write. "
    "Class family and earlier reads: in about three of ten random cases (and every fourth enumerated one) the file class "
    "that declares the case's sections belongs to a small family of file classes with ANOTHER section list (its parent "
    "declares the other list; or a class derived from it does; or the class itself declared the other list first and its "
    "SECTIONS is re-declared afterwards), and the relative (or the class under its earlier declaration) reads a content of "
    "its own before the observed read; the observed read and write must be what the model computes for the case's section "
    "list and x alone."
)
ASSUMPTIONS = ["sections are the harness's raw-storing sections (fixed line count / pattern-terminated); a section reading at end of input stores []"]
TRUSTED = ["Python re.search for the AST subset"]
EXHAUSTIVE = {"quick": True, "thorough": True}


class DestinationNotCreated(Exception):
    pass


def write_each(f, io, binary, extra, n):
    """n writes in a row of the one file object f, each to a fresh destination of its own (buffers in memory, or
    paths of one fresh directory); every destination is looked at only after ALL the writes are done"""
    if not io:
        from io import BytesIO

        bufs = [BytesIO() if binary else StringIO() for _ in range(n)]
        for b in bufs:
            f.write(b, *extra)
        return [b.getvalue() for b in bufs]
    import os, shutil, tempfile

    d = tempfile.mkdtemp(prefix="cfi-io-")
    try:
        paths = [os.path.join(d, f"out{i}.dat") for i in range(n)]
        for p in paths:
            f.write(p, *extra)
        out = []
        for i, p in enumerate(paths):
            if not os.path.exists(p):
                raise DestinationNotCreated(f"write number {i + 1} of {n} (to a path of its own) returned, but nothing exists at that path")
            with open(p, "rb") as fh:
                raw = fh.read()
            out.append(raw if binary else raw.decode(io["enc"]))
        return out
    finally:
        shutil.rmtree(d, ignore_errors=True)


def mk_family(case, binary):
    """the file class of the case inside a family of file classes: `before` = {"who", "secs", "x"} names a relative with
    a section list of its own (section classes of its own as well) that reads the content `x` BEFORE the observed read:
    who = "parent": the case's class derives from the relative; "child": the relative derives from the case's class;
    "redeclared": the case's class itself declared the other list, read, and has SECTIONS re-declared afterwards"""
    from cfinterface.files.sectionfile import SectionFile

    b = case["before"]
    io = case.get("io")
    classes = fsup.mk_section_classes(case["secs"])
    others = fsup.mk_section_classes(b["secs"])

    def ns(cl):
        d = {"SECTIONS": cl, "STORAGE": "BINARY" if binary else fsup.text_storage("TEXT", len(cl)), "__slots__": []}
        if io:
            d["ENCODING"] = io["enc"]
        return d

    x0 = codec.dec_str(b["x"])
    if binary:
        x0 = x0.encode("latin-1")
    if b["who"] == "parent":
        A = type("SFBase", (SectionFile,), ns(others))
        SF = fsup.derived(type("SF", (A,), ns(classes)), len(classes))
        fsup.read_text(A, x0, io)
    elif b["who"] == "child":
        SF0 = type("SF", (SectionFile,), ns(classes))
        SF = fsup.derived(SF0, len(classes))
        B = type("SFMore", (SF,), ns(others))
        fsup.read_text(B, x0, io)
    else:
        SF0 = type("SF", (SectionFile,), ns(others))
        SF = fsup.derived(SF0, len(classes))
        fsup.read_text(SF, x0, io)
        SF0.SECTIONS = classes
    return SF, classes


def run_impl(case):
    try:
        binary = bool(case.get("binary"))
        if case.get("before"):
            SF, classes = mk_family(case, binary)
        else:
            SF, classes = fsup.mk_section_file(case["secs"], io=case.get("io"), binary=binary)
        x = codec.dec_str(case["x"])
        if binary:
            # binary storage: the same content as bytes (one byte per character); the section family
            # reads it line by line all the same, so the model of the text is the model of the bytes
            x = x.encode("latin-1")
        f = fsup.read_text(SF, x, case.get("io"))
        cap = len(x) + len(case["secs"]) + 5
        elems = [fsup.enc_selem(e, classes) for e in fsup.capped(f.data, cap)]
        extra = (f.data,) if case.get("query_in_write") else ()
        w = case.get("writes")
        if w:
            written = write_each(f, case.get("io"), binary, extra, w["n"])[w["observe"]]
        else:
            written = fsup.write_text(f, case.get("io"), binary, extra)
        return {"elems": elems, "written": codec.enc_str(fsup.as_text(written))}
    except Exception as e:
        return codec.enc_exc(e)


def request(case, obs):
    if "harness_exc" in obs:
        obs = {"exc": "harness"}
    if "elems" in obs and any("dflt_none" in e for e in obs["elems"]):
        obs = {"exc": "DefaultWithNoneData"}
    return {"op": "c13", "secs": case["secs"], "x": case["x"], "obs": obs}


def judge(case, obs, resp):
    if "error" in resp:
        return {"status": "error", "why": resp["error"]}
    if "harness_exc" in obs:
        return {"status": "error", "why": f"harness: {obs['harness_exc']} {obs.get('msg')}"}
    if not resp["model_holds"]:
        return {"status": "error", "why": f"the MODEL violates Spec.C13.holds: {c12.show(resp.get('model'), False)}"}
    if "exc" in obs:
        return {"status": "oracle", "why": f"SectionFile read/write raised {obs['exc']}: {obs.get('msg')}{show_writes(case)}{show_before(case)}"}
    if not resp["holds"]:
        return {"status": "oracle", "why": f"x={codec.dec_str(case['x'])!r}: got {c12.show(obs, False)}; required {c12.show(resp.get('model'), False)}{show_writes(case)}{show_before(case)}"}
    if not resp["agree"]:
        return {"status": "corr", "why": "model and implementation disagree"}
    return {"status": "ok", "why": ""}


def show_writes(case):
    w = case.get("writes")
    if not w:
        return ""
    where = "paths of one directory" if case.get("io") else "buffers"
    return (f" [the one file object read from x was written {w['n']} times in a row, each time to a fresh destination of "
            f"its own ({where}); 'written' is what destination number {w['observe'] + 1} holds once all writes are done]")


def show_before(case):
    b = case.get("before")
    if not b:
        return ""
    who = {"parent": "the PARENT class of the file class declares another section list",
           "child": "a class DERIVED from the file class declares another section list",
           "redeclared": "the file class itself first declared another section list (SECTIONS re-declared to the case's list afterwards)"}[b["who"]]
    return (f" [class family: {who}, {json.dumps(b['secs'])}, and read the content {codec.dec_str(b['x'])!r} under it before the "
            f"observed read; the required result is the one of the case's own section list and x alone]")


def nontrivial(case):
    return len(case["secs"]) > 0 and len(case["x"]) > 0


def features(case, obs):
    x = codec.dec_str(case["x"])
    n = len(x.splitlines())
    f = [f"nsecs={len(case['secs'])}", f"nlines={min(n, 12)}"]
    w = case.get("writes")
    f.append("writes=1" if not w else f"writes={w['n']},observed={w['observe'] + 1}")
    f.append("before=" + (case["before"]["who"] if case.get("before") else "none"))
    f.append("empty_content" if not x else ("final_newline" if x.endswith("\n") else "no_final_newline"))
    if isinstance(obs, dict) and "elems" in obs:
        declared = [e for e in obs["elems"] if "cls" in e]
        if any(len(e["raw"]) == 0 for e in declared):
            f.append("section_read_at_eof")
        if any("dflt" in e for e in obs["elems"][1:]):
            f.append("leftover_lines")
    return f


def signature(rec):
    return rec["verdict"]["why"][:20]


def matches_known(trigger, case):
    return False


def snippet(case):
    return f"""import sys; sys.path.insert(0, '/verif/harness'); sys.path.insert(0, '/repo')
from props import c12, c13
case = {json.dumps(case)}
print(c12.show(c13.run_impl(case), False))
"""


def rand_sec(rng):
    if rng.random() < 0.55:
        return {"fixed": rng.randrange(0, 4)}
    return {"until": c12.rand_pat(rng)}


def random_case(rng):
    secs = [rand_sec(rng) for _ in range(rng.randrange(0, 5))]
    lines = []
    for _ in range(fsup.nlines(rng, 10)):
        r = rng.random()
        if r < 0.4:
            l = rng.choice(["", " ", "x "]) + rng.choice(c12.MARKS) + rng.choice(["", " 1", "END"])
        elif r < 0.5:
            l = ""
        else:
            l = rng.choice(["line ", "linha ã ", "ñ"]) + str(rng.randrange(100))
        lines.append(l + "\n")
    x = "".join(lines)
    if x and rng.random() < 0.35:
        x = x[:-1]
    case = {"secs": secs}
    if rng.random() < 0.015:
        # in-memory content that names an existing directory or device
        case["x"] = codec.enc_str(fsup.path_like(rng))
        case["query_in_write"] = False
        return case
    if rng.random() < 0.2:
        # binary storage (bytes content, one byte per character; through memory or a path)
        case["binary"] = True
        x = x.encode("latin-1", "replace").decode("latin-1")
        if rng.random() < 0.25:
            case["io"] = {"enc": "utf-8"}
    elif rng.random() < 0.2 and x:
        for _ in range(rng.randrange(1, 4)):  # lone carriage returns (in memory only "\n" ends a line)
            i = rng.randrange(len(x))
            x = x[:i] + "\r" + x[i:]
    else:
        io = fsup.io_of(rng, [x])
        if io:
            case["io"] = io
    case["x"] = codec.enc_str(x)
    case["query_in_write"] = rng.random() < 0.25
    if rng.random() < 0.33:
        case["writes"] = rand_writes(rng)
    # class family / earlier reads: drawn from a stream of its own (derived from the case), so that the
    # streams of the dimensions above stay what they were
    frng = random.Random("c13-family|" + json.dumps(case, sort_keys=True))
    if frng.random() < 0.3:
        case["before"] = rand_before(frng, secs, x)
    return case


WARM = ["w 1\n", "END\n", "x BEG\n", "\n", "E 2\n", "## 3\n"]


def rand_before(rng, secs, x):
    """a relative's section list (the case's list shortened, lengthened, or another list altogether) and the content
    it reads before the observed read (the case's own content, or a few lines of its own; ASCII, so that every
    declared encoding holds it)"""
    r = rng.random()
    if r < 0.3 and secs:
        other = secs[:-1]
    elif r < 0.6 and len(secs) < 4:
        other = secs + [rand_sec(rng)]
    else:
        other = [rand_sec(rng) for _ in range(rng.randrange(0, 4))]
    if rng.random() < 0.5:
        x0 = x
    else:
        x0 = "".join(rng.choice(WARM) for _ in range(rng.randrange(0, 6)))
        if x0 and rng.random() < 0.3:
            x0 = x0[:-1]
    return {"who": rng.choice(["parent", "parent", "child", "redeclared"]), "secs": other, "x": codec.enc_str(x0)}


def rand_writes(rng):
    n = rng.choice([2, 2, 3])
    return {"n": n, "observe": rng.randrange(n)}


def exhaustive_cases():
    """all section lists of <=3 fixed/pattern sections from a small pool x contents of 0-5 lines (with/without final newline)"""
    pool = [{"fixed": 0}, {"fixed": 1}, {"fixed": 2}, {"until": fsup.lit_pat("END")}, {"until": fsup.lit_pat("E", True)}]
    import itertools

    contents = []
    base = ["a\n", "END\n", "E x\n", "b END\n", "\n"]
    for n in range(0, 5):
        for tup in itertools.product(range(3), repeat=n):
            x = "".join(base[t] for t in tup)
            contents.append(x)
            if x:
                contents.append(x[:-1])
    k = 0
    for n in range(0, 4):
        for secs in itertools.product(pool, repeat=n):
            for x in contents if n <= 2 else contents[::5]:
                case = {"secs": list(secs), "x": codec.enc_str(x)}
                k += 1
                if k % 3 == 0:  # every third one: two writes in a row, the first / the second destination observed
                    case["writes"] = {"n": 2, "observe": (k // 3) % 2}
                if k % 4 == 1:  # every fourth one: a relative with another section list reads first
                    j = k // 4
                    other = [list(secs[:-1]), list(secs) + [pool[j % len(pool)]], [pool[(j // 3) % len(pool)]]][j % 3]
                    case["before"] = {"who": ["parent", "child", "redeclared"][(j // 3) % 3], "secs": other,
                                      "x": codec.enc_str(x if j % 2 else "w 1\nEND\nE 2\n")}
                yield case


def corpus_cases():
    d = Path(__file__).resolve().parent.parent.parent / "corpus" / PROP
    out = []
    if d.exists():
        for f in sorted(d.glob("*.json")):
            j = json.loads(f.read_text())
            out.append(j["case"] if "case" in j else j)
    return out


def chunks(tier, seed):
    ch = [{"kind": "corpus"}]
    nrand = {"quick": 3000, "thorough": 320000}.get(tier, 10000)
    for p in range(4):
        ch.append({"kind": "exh", "part": p, "of": 4})
    per = max(1, nrand // 12)
    for i in range(12):
        ch.append({"kind": "random", "seed": seed * 1000 + i, "n": per})
    return ch


def cases_of(chunk):
    if chunk["kind"] == "corpus":
        yield from corpus_cases()
    elif chunk["kind"] == "exh":
        for i, c in enumerate(exhaustive_cases()):
            if i % chunk["of"] == chunk["part"]:
                yield c
    else:
        rng = random.Random(chunk["seed"])
        for _ in range(chunk["n"]):
            yield random_case(rng)


def shrinks(case):
    b = case.get("before")
    if b:
        yield {k: v for k, v in case.items() if k != "before"}
        bl = codec.dec_str(b["x"]).splitlines(True)
        for i in range(len(bl)):
            yield {**case, "before": {**b, "x": codec.enc_str("".join(bl[:i] + bl[i + 1 :]))}}
        for i in range(len(b["secs"])):
            yield {**case, "before": {**b, "secs": b["secs"][:i] + b["secs"][i + 1 :]}}
    w = case.get("writes")
    if w:
        yield {k: v for k, v in case.items() if k != "writes"}
        if w["n"] > 2:
            yield {**case, "writes": {"n": 2, "observe": min(w["observe"], 1)}}
    lines = codec.dec_str(case["x"]).splitlines(True)
    for i in range(len(lines)):
        yield {**case, "x": codec.enc_str("".join(lines[:i] + lines[i + 1 :]))}
    n = len(case["secs"])
    for i in range(n):
        yield {**case, "secs": case["secs"][:i] + case["secs"][i + 1 :]}
