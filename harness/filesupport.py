"""Construction of real cfinterface register / block / section classes and file
classes from the JSON descriptors shared with the Lean driver, regex-AST
rendering, and canonical observation of containers."""
from __future__ import annotations

import re
from typing import IO

import codec


# ------------------------------------------------------------------ regex AST
def re_render(ast, binary=False) -> str:
    k = ast[0]
    if k == "none":
        return "(?!)"
    if k == "eps":
        return ""
    if k == "chr":
        return re.escape(chr(ast[1]))
    if k == "any":
        return "."
    if k == "set":
        return "[" + "".join(re.escape(chr(c)) for c in ast[1]) + "]"
    if k == "cat":
        return re_render(ast[1]) + re_render(ast[2])
    if k == "alt":
        return "(?:" + re_render(ast[1]) + "|" + re_render(ast[2]) + ")"
    if k == "star":
        return "(?:" + re_render(ast[1]) + ")*"
    raise ValueError(k)


def pat_render(pat, binary=False):
    s = ("^" if pat["anchored"] else "") + re_render(pat["re"])
    return s.encode("latin-1") if binary else s


def re_lit(text) -> list:
    cps = [ord(c) for c in text] if isinstance(text, str) else list(text)
    if not cps:
        return ["eps"]
    ast = ["chr", cps[-1]]
    for c in reversed(cps[:-1]):
        ast = ["cat", ["chr", c], ast]
    return ast


def lit_pat(text, anchored=False):
    return {"anchored": anchored, "re": re_lit(text)}


# ------------------------------------------------------------------ registers
def mk_register_classes(regs):
    from cfinterface.components.line import Line
    from cfinterface.components.register import Register

    out, bases = [], []
    for i, rd in enumerate(regs):
        fields = [codec.mk_field(fd) for fd in rd["fields"]]
        delim = rd.get("delimiter")
        delim = None if delim is None else codec.dec_data(delim)
        # every second declared type DERIVES from the type declared just before it and overrides every
        # declaration (a later version of a record): what a type declares itself wins over whatever its
        # parent declared, cached or computed
        parent = out[i - 1] if i % 2 == 1 else Register
        cls = type(
            f"Reg{i}",
            (parent,),
            {"IDENTIFIER": codec.dec_str(rd["ident"]), "IDENTIFIER_DIGITS": rd["digits"], "LINE": Line(fields, delimiter=delim), "__slots__": []},
        )
        bases.append(cls)
        out.append(derived(cls, i))
    return out


def text_storage(storage, i):
    """every storage name other than "BINARY" selects the textual adapters: "" (the default
    argument of the readers and writers) and unknown names are used as often as "TEXT";
    a class that declares nothing inherits the framework's default"""
    if storage != "TEXT":
        return storage
    return ["TEXT", "", "TEXTUAL"][i % 3]


def derived(cls, i):
    """every other declared type is an empty subclass of the class that carries the
    declarations (IDENTIFIER, LINE, patterns, read/write ...): what a type inherits must
    work like what it declares itself"""
    return type(cls.__name__ + "Child", (cls,), {"__slots__": []}) if i % 2 == 1 else cls


def mk_register_file(regs, storage="TEXT", classes=None, io=None):
    """`io` = None (in-memory I/O) or {"enc": <codec>}: a file class that declares that
    ENCODING, whose I/O the harness routes through a scratch directory"""
    from cfinterface.files.registerfile import RegisterFile

    classes = classes if classes is not None else mk_register_classes(regs)
    ns = {"REGISTERS": classes, "STORAGE": text_storage(storage, len(regs)), "__slots__": []}
    if io:
        ns["ENCODING"] = io["enc"]
    return derived(type("RF", (RegisterFile,), ns), len(regs)), classes


PATH_LIKE = [".", "..", "/", "/tmp", "/dev/null", "/dev/zero", "./", "/usr/bin"]


def path_like(rng):
    """an in-memory content that happens to NAME something that exists without being a regular file (a
    directory, a device): it is content — one line without a newline — and is read as such"""
    return rng.choice(PATH_LIKE)


# ---- I/O routes of a text file: in memory (content string / StringIO) or through paths on disk.
# The properties about file contents (C04, C05, C06) do not depend on the medium: the same
# statement is checked through both routes (the equivalence of the routes itself is C16).
DISK_ENCODINGS = ["utf-8", "latin-1"]
NON_ASCII = "ãéçñüº³"  # encodable in every DISK_ENCODINGS member, no white space, no line ends


def io_of(rng, texts=(), p=0.25):
    """a disk route for a quarter of the cases; the declared encoding is one that can
    hold every character of `texts` (utf-8 otherwise)"""
    if rng.random() >= p:
        return None
    enc = rng.choice(DISK_ENCODINGS)
    try:
        for t in texts:
            t.encode(enc)
    except UnicodeEncodeError:
        enc = "utf-8"
    try:
        for t in texts:
            t.encode(enc)
    except UnicodeEncodeError:  # lone surrogates and the like: stay in memory
        return None
    return {"enc": enc}


def read_text(F, content, io, *extra):
    """F.read of a text content, in memory or from a path holding it in F's declared encoding"""
    if not io:
        return F.read(content, *extra)
    import os, shutil, tempfile

    d = tempfile.mkdtemp(prefix="cfi-io-")
    try:
        path = os.path.join(d, "in.dat")
        with open(path, "wb") as fh:
            fh.write(content if isinstance(content, bytes) else content.encode(io["enc"]))
        return F.read(path, *extra)
    finally:
        shutil.rmtree(d, ignore_errors=True)


def write_text(f, io, binary=False, extra=()):
    """the text (bytes in binary storage) a file writes, through a buffer or through a path
    (decoded with the declared encoding)"""
    if not io:
        from io import BytesIO, StringIO

        buf = BytesIO() if binary else StringIO()
        f.write(buf, *extra)
        return buf.getvalue()
    import os, shutil, tempfile

    d = tempfile.mkdtemp(prefix="cfi-io-")
    try:
        path = os.path.join(d, "out.dat")
        f.write(path, *extra)
        with open(path, "rb") as fh:
            raw = fh.read()
        return raw if binary else raw.decode(io["enc"])
    finally:
        shutil.rmtree(d, ignore_errors=True)


def enc_relem(e, classes):
    from cfinterface.components.defaultregister import DefaultRegister

    if isinstance(e, DefaultRegister):
        d = e.data
        if d is None:
            return {"dflt_none": True}
        return {"dflt": codec.enc_data(d)}
    for i, c in enumerate(classes):
        if type(e) is c:
            return {"cls": i, "data": [codec.enc_val(v) for v in e.data]}
    return {"cls": 999, "data": []}


def dec_relem(j, classes):
    from cfinterface.components.defaultregister import DefaultRegister

    if "dflt" in j:
        return DefaultRegister(data=codec.dec_data(j["dflt"]))
    return classes[j["cls"]](data=[codec.dec_val(v) for v in j["data"]])


def capped(container, cap):
    out = []
    it = iter(container)
    for _ in range(cap):
        try:
            out.append(next(it))
        except StopIteration:
            return out
    raise RuntimeError("container iteration does not end (cycle)")


# ------------------------------------------------------------------ blocks
def mk_block_classes(blocks, binary=False):
    from cfinterface.components.block import Block

    out = []
    for i, bd in enumerate(blocks):
        beg = pat_render(bd["begin"], binary)
        end = pat_render(bd["end"], binary)

        if binary:

            def read(self, file: IO, *args, **kwargs):
                buf = b""
                while True:
                    c = file.read(1)
                    if len(c) == 0:
                        break
                    buf += c
                    if self.ends(c, "BINARY"):
                        break
                keep(self, [buf])
                return reports(self, len(buf) > 0 and self.ends(buf[-1:], "BINARY"))

        else:

            def read(self, file: IO, *args, **kwargs):
                lines = []
                while True:
                    line = file.readline()
                    if len(line) == 0:
                        break
                    lines.append(line)
                    if self.ends(line):
                        break
                keep(self, lines)
                return reports(self, len(lines) > 0 and bool(self.ends(lines[-1])))

        def write(self, file: IO, *args, **kwargs):
            for a in args:
                # whatever the caller forwards through File.write(to, *args) reaches every element;
                # an element may consult it — e.g. the file's own container — while it is being written
                if hasattr(a, "__len__") and hasattr(a, "of_type"):
                    len(a)
                    next(iter(a), None)
            for chunk in payload(self):
                file.write(chunk)
            return write_result(self)

        def eq(self, o):
            return isinstance(o, self.__class__) and payload(o) == payload(self)

        cls = derived(type(f"Blk{i}", (Block,), {"BEGIN_PATTERN": beg, "END_PATTERN": end, "read": read, "write": write, "__eq__": eq, "__hash__": None, "__slots__": own_slot(i)}), i)
        out.append(cls)
    return out


def mk_block_file(blocks, binary=False, classes=None, io=None):
    from cfinterface.files.blockfile import BlockFile

    classes = classes if classes is not None else mk_block_classes(blocks, binary)
    ns = {"BLOCKS": classes, "STORAGE": "BINARY" if binary else text_storage("TEXT", len(classes)), "__slots__": []}
    if io:
        ns["ENCODING"] = io["enc"]
    return derived(type("BF", (BlockFile,), ns), len(classes)), classes


def enc_belem(e, classes, binary):
    from cfinterface.components.defaultblock import DefaultBlock

    enc = (lambda x: list(x)) if binary else codec.enc_str
    if isinstance(e, DefaultBlock):
        d = e.data
        if d is None:
            return {"dflt_none": True}
        return {"dflt": enc(d)}
    for i, c in enumerate(classes):
        if type(e) is c:
            return {"cls": i, "raw": [enc(x) for x in payload(e)]}
    return {"cls": 999, "raw": []}


# every third declared block / section type keeps what it read in a slot of its own and
# leaves the inherited `data` slot at None (the library does not require `data` to be used)
def reports(obj, complete):
    """the documented result of read(): "the success, or not, in the reading".  The framework
    ignores it; a third of the declared types (by name) report False when the input ended before
    the element was complete, the others always report True"""
    digits = "".join(ch for ch in type(obj).__name__ if ch.isdigit())
    return bool(complete) if digits and int(digits) % 3 == 1 else True


def write_result(obj):
    """what a user-written write() returns: the framework documents a success flag and ignores it;
    many real elements have no return statement at all.  By type name: True, None, True, False, ..."""
    digits = "".join(ch for ch in type(obj).__name__ if ch.isdigit())
    k = int(digits) % 4 if digits else 0
    return None if k == 1 else (False if k == 3 else True)


def own_slot(i):
    return ["raw"] if i % 3 == 2 else []


def keep(obj, value):
    if hasattr(type(obj), "raw"):  # the slot descriptor of an own-slot type
        obj.raw = value
    else:
        obj.data = value


def payload(obj):
    return obj.raw if hasattr(type(obj), "raw") else obj.data


# ------------------------------------------------------------------ sections
def mk_section_classes(secs):
    from cfinterface.components.section import Section

    out = []
    for i, sd in enumerate(secs):
        if "fixed" in sd:
            n = sd["fixed"]

            def read(self, file: IO, *args, _n=n, **kwargs):
                lines = []
                for _ in range(_n):
                    line = file.readline()
                    if len(line) == 0:
                        break
                    lines.append(line)
                keep(self, lines)
                return reports(self, len(lines) == _n)

        else:
            pat = re.compile(pat_render(sd["until"]))

            def read(self, file: IO, *args, _p=pat, **kwargs):
                lines = []
                while True:
                    line = file.readline()
                    if len(line) == 0:
                        break
                    lines.append(line)
                    if _p.search(as_text(line)) is not None:
                        break
                keep(self, lines)
                return reports(self, len(lines) > 0 and _p.search(as_text(lines[-1])) is not None)

        def write(self, file: IO, *args, **kwargs):
            for a in args:
                # whatever the caller forwards through File.write(to, *args) reaches every element;
                # an element may consult it — e.g. the file's own container — while it is being written
                if hasattr(a, "__len__") and hasattr(a, "of_type"):
                    len(a)
                    next(iter(a), None)
            for chunk in payload(self):
                file.write(chunk)
            return write_result(self)

        def eq(self, o):
            return isinstance(o, self.__class__) and payload(o) == payload(self)

        out.append(derived(type(f"Sec{i}", (Section,), {"read": read, "write": write, "__eq__": eq, "__hash__": None, "__slots__": own_slot(i)}), i))
    return out


def as_text(line):
    """a line of a binary section file seen as text (one character per byte): the section family reads
    binary storage line by line as well, only the line type differs"""
    return line.decode("latin-1") if isinstance(line, (bytes, bytearray)) else line


def mk_section_file(secs, classes=None, io=None, binary=False):
    from cfinterface.files.sectionfile import SectionFile

    classes = classes if classes is not None else mk_section_classes(secs)
    ns = {"SECTIONS": classes, "STORAGE": "BINARY" if binary else text_storage("TEXT", len(classes)), "__slots__": []}
    if io:
        ns["ENCODING"] = io["enc"]
    return derived(type("SF", (SectionFile,), ns), len(classes)), classes


def enc_selem(e, classes):
    from cfinterface.components.defaultsection import DefaultSection

    if isinstance(e, DefaultSection):
        d = e.data
        if d is None:
            return {"dflt_none": True}
        return {"dflt": codec.enc_str(as_text(d))}
    for i, c in enumerate(classes):
        if type(e) is c:
            return {"cls": i, "raw": [codec.enc_str(as_text(x)) for x in payload(e)]}
    return {"cls": 999, "raw": []}


def nlines(rng, hi, lo=0):
    """number of lines of a generated content: usually small, one content in twenty is long (several
    hundred to several thousand characters - longer than a file name or a path may be, longer than
    one I/O buffer)"""
    if rng.random() < 0.05:
        return rng.randrange(40, 400)
    return rng.randrange(lo, hi)
