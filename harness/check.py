"""bin/check <Cxx> quick|thorough   |   bin/check <Cxx> --replay <file>"""
from __future__ import annotations

import importlib
import json
import os
import shutil
import sys
import time
from pathlib import Path

HERE = Path(__file__).resolve().parent
sys.path.insert(0, str(HERE))
import core  # noqa: E402

sys.path.insert(0, str(core.REPO))

TRUSTED_COMMON = [
    "Lean 4.33.0 kernel (theorems in lean/Props/*.lean; axioms audited per theorem: subset of propext, Classical.choice, Quot.sound)",
    "harness/*.py correspondence harness and lean/Driver/*.lean JSON decoding/encoding",
    "lean/Cfi/*.lean is a hand-written model of cfinterface; its tie to /repo is the correspondence run of this check",
]


def snippet_of(mod, case) -> str:
    try:
        return mod.snippet(case)
    except Exception as e:  # pragma: no cover
        return f"# no snippet: {e}"


def report(prop, mod, rec, kind, extra, known, seed, tier):
    """Writes the replay file and prints the VIOLATION / KNOWN-FINDING line.
    Returns 1 if it is a (new) violation, 0 if it is a listed known finding."""
    payload = {
        "property": prop,
        "kind": kind,
        "seed": seed,
        "tier": tier,
        "why": rec["verdict"]["why"] if rec else extra.get("why"),
        "case": rec["case"] if rec else None,
        "impl_observation": rec["obs"] if rec else None,
        "model_response": rec["resp"] if rec else None,
        "python_snippet": snippet_of(mod, rec["case"]) if rec else None,
        **extra,
    }
    path = core.write_replay(prop, payload)
    if rec is not None and kind == "failing-input":
        for k in known:
            if k["kind"] == "known" and k["property"] == prop and "trigger" in k:
                try:
                    if mod.matches_known(k["trigger"], rec["case"]):
                        print(f"KNOWN-FINDING: property={prop} {k['text']} (replay={path})")
                        return 0
                except Exception:
                    pass
    tail = "" if kind == "failing-input" else " no-failing-input-found"
    print(f"VIOLATION property={prop} replay={path}{tail}")
    return 1


def main(argv):
    if len(argv) < 3:
        print("usage: check <Cxx> quick|thorough | check <Cxx> --replay <file>")
        return 2
    prop = argv[1].upper()
    replay = None
    if argv[2] == "--replay":
        replay = argv[3]
        tier = "quick"
    else:
        tier = argv[2]
    os.environ["VERIF_TIER"] = tier
    seed = core.seed_from_env()
    t0 = time.time()
    mod = importlib.import_module(f"props.{prop.lower()}")
    known = core.load_known()
    broken: list[dict] = []

    # 0. platform fingerprint (interpreter facts the model relies on)
    try:
        import fingerprint

        fp = fingerprint.check()
        if fp:
            print("ERROR platform fingerprint differs from the one the model was validated on:", fp)
            return 2
    except ImportError:
        pass

    # 1. constants
    gen_default = core.LEAN / "generated_default" / "Generated.lean"
    ok, log = core.regenerate_constants()
    if not ok:
        broken.append({"obligation": "gen_constants", "detail": log[-1500:]})
        if gen_default.exists():
            shutil.copy(gen_default, core.LEAN / "Cfi" / "Generated.lean")
    # 2. build
    b = core.lake_build(mod.LEAN_MODULES)
    if not b["driver_ok"]:
        # constants that no longer type-check in the model: fall back to the committed defaults
        if gen_default.exists():
            shutil.copy(gen_default, core.LEAN / "Cfi" / "Generated.lean")
            broken.append({"obligation": "model does not build with regenerated constants", "detail": b["log"][-1500:]})
            b = core.lake_build(mod.LEAN_MODULES)
    if not b["driver_ok"]:
        print("ERROR lean driver does not build\n" + b["log"][-3000:])
        return 2
    if not b["proofs_ok"]:
        first = next((l for l in b["log"].splitlines() if l.startswith("error")), "lake build failed")
        broken.append({"obligation": "lake build", "detail": first, "log": b["log"][-3000:]})
    # 3. audit
    aud = core.audit(mod.LEAN_MODULES) if b["proofs_ok"] else {"ok": False, "theorems": [], "bad": [], "stderr": "not audited: build failed"}
    if b["proofs_ok"] and not aud["ok"]:
        broken.append({"obligation": "axiom audit", "detail": aud["bad"] or aud["stderr"]})
    if tier == "thorough" and b["proofs_ok"]:
        # independent re-check of the compiled theorem modules by Lean's external checker
        import subprocess

        lc = subprocess.run(["lake", "env", "leanchecker", *mod.LEAN_MODULES], cwd=core.LEAN, stdout=subprocess.PIPE, stderr=subprocess.STDOUT, text=True)
        leanchecker = {"cmd": "lake env leanchecker " + " ".join(mod.LEAN_MODULES), "exit": lc.returncode, "tail": lc.stdout[-300:]}
        if lc.returncode != 0:
            broken.append({"obligation": "leanchecker", "detail": lc.stdout[-1500:]})
    else:
        leanchecker = None
    hits = core.source_grep()
    if hits:
        broken.append({"obligation": "source grep (sorry/axiom/native_decide/...)", "detail": hits[:10]})

    # replay mode: one case
    if replay is not None:
        payload = json.loads(Path(replay).read_text())
        if payload.get("case") is None:
            print("replay file names a broken obligation, not an input:", payload.get("broken"))
            return 1 if broken else 0
        rec = core.eval_cases(mod, [payload["case"]])[0]
        print(json.dumps({"verdict": rec["verdict"], "obs": rec["obs"], "resp": rec["resp"]}, indent=1, default=str)[:6000])
        if rec["verdict"]["status"] in ("oracle", "corr", "error"):
            print(f"VIOLATION property={prop} replay={replay}")
            return 1
        return 0

    # 4. cases
    chunks = mod.chunks(tier, seed)
    agg = core.run_chunks(mod.__name__, chunks)
    known_hits = [r for r in agg["fail"] if "known" in r]
    oracle = [r for r in agg["fail"] if r["verdict"]["status"] == "oracle" and "known" not in r]
    corr = [r for r in agg["fail"] if r["verdict"]["status"] in ("corr", "error")]
    searched = 0
    if not oracle and (broken or corr):
        # 5. broken obligation or correspondence: search for a concrete failing input
        sch = mod.chunks("search", seed + 7919)
        agg2 = core.run_chunks(mod.__name__, sch)
        searched = agg2["n"]
        # (a listed known finding met again during the search is not the failing input looked for)
        oracle = [r for r in agg2["fail"] if r["verdict"]["status"] == "oracle" and "known" not in r]

    def is_known_case(case):
        for k in known:
            if k["kind"] == "known" and k["property"] == prop and "trigger" in k:
                try:
                    if mod.matches_known(k["trigger"], case):
                        return True
                except Exception:
                    pass
        return False

    rc = 0
    nviol = 0
    # listed known findings: one line per finding, never a violation
    for trig in sorted({r["known"] for r in known_hits}):
        rec = next(r for r in known_hits if r["known"] == trig)
        ent = next(k for k in known if k.get("trigger") == trig and k["property"] == prop)
        path = core.write_replay(prop, {"property": prop, "kind": "known-finding", "trigger": trig, "case": rec["case"], "why": rec["verdict"]["why"], "impl_observation": rec["obs"], "python_snippet": snippet_of(mod, rec["case"])})
        print(f"KNOWN-FINDING: property={prop} {ent['text']} (replay={path})")
    if oracle:
        seen = set()
        for rec in oracle:
            sig = mod.signature(rec) if hasattr(mod, "signature") else rec["verdict"]["why"][:60]
            if sig in seen or len(seen) >= 3:
                continue
            seen.add(sig)
            small = core.shrink(mod, rec, "oracle", reject=is_known_case)
            v = report(prop, mod, small, "failing-input", {"broken": broken, "original_case": rec["case"]}, known, seed, tier)
            nviol += v
            rc = max(rc, v)
    elif corr:
        rec = core.shrink(mod, corr[0], corr[0]["verdict"]["status"])
        v = report(prop, mod, rec, "correspondence", {"broken": broken + [{"obligation": "correspondence model vs implementation", "detail": rec["verdict"]["why"]}], "searched": searched}, known, seed, tier)
        nviol += v
        rc = 1
    elif broken:
        v = report(prop, mod, None, "proof-obligation", {"broken": broken, "why": str(broken[0]["obligation"]), "searched": searched}, known, seed, tier)
        nviol += v
        rc = 1

    # 6. evidence
    nthm = len(aud["theorems"])
    discharged = nthm - len(aud["bad"]) if (b["proofs_ok"] and not hits) else 0
    ev = {
        "property_id": prop,
        "tier": tier if tier in ("quick", "thorough") else "quick",
        "seed": seed,
        "level": "proof",
        "coverage": {
            "obligations": max(nthm, 1),
            "discharged": discharged,
            "checker_cmd": "cd lean && lake build " + " ".join("+" + m for m in mod.LEAN_MODULES) + " && lake env .lake/build/bin/audit " + " ".join(mod.LEAN_MODULES) + " (thorough: + lake env leanchecker ...)",
            "stated_and_checked_per_case_but_not_theorems": list(getattr(mod, "NOT_THEOREMS", [])),
            "trusted_base": TRUSTED_COMMON + list(getattr(mod, "TRUSTED", [])),
            "theorems": [{"name": t["theorem"], "axioms": t["axioms"]} for t in aud["theorems"]],
            "evaluations": agg["n"] + searched,
            "distinct_nontrivial": len(agg["nt"]),
            "distinct": len(agg["hashes"]),
            "rule": mod.RULE,
            "samples": agg["samples"][:4],
            "verdicts": agg["status"],
            "input_distribution": dict(sorted(agg["dist"].items())),
            "chunks": agg["chunks"],
            "exhaustive": bool(getattr(mod, "EXHAUSTIVE", {}).get(tier, False)),
            "broken_obligations": broken,
            "leanchecker": leanchecker,
            "search_evaluations": searched,
        },
        "assumptions": list(getattr(mod, "ASSUMPTIONS", [])),
        "wall_s": round(time.time() - t0, 2),
        "violations": nviol,
    }
    core.write_evidence(prop, ev)
    st = agg["status"]
    print(f"{prop} {tier}: {agg['n']} cases {st} ; theorems {discharged}/{nthm} ; {ev['wall_s']}s ; exit {rc}")
    return rc


if __name__ == "__main__":
    sys.exit(main(sys.argv))
