"""
Shared machinery of every check (see DESIGN.md section 3).

A check for property Cxx does, in this order:
  1. regenerate lean/Cfi/Generated.lean from the code loaded from the repo;
  2. lake build (driver first, then the proofs);
  3. audit the axioms of every theorem in Props.Cxx, grep for sorry & co;
  4. run the correspondence + oracle on corpus / exhaustive / generated cases:
     every case is executed on the real cfinterface objects in-process, the
     observation is sent to the compiled Lean driver, which (a) runs the model
     on the same input, (b) compares, (c) evaluates Spec.Cxx.holds on the
     implementation's observation;
  5. on any broken obligation: search for a concrete failing input, shrink it,
     write a replay file, print VIOLATION / KNOWN-FINDING lines;
  6. write evidence/Cxx.json.
"""
from __future__ import annotations

import concurrent.futures as cf
import fcntl
import hashlib
import importlib
import json
import os
import re
import subprocess
import sys
import time
import traceback
from pathlib import Path

VERIF = Path(__file__).resolve().parent.parent
LEAN = VERIF / "lean"
REPO = Path(os.environ.get("CFI_REPO", "/repo")).resolve()
DRIVER = LEAN / ".lake" / "build" / "bin" / "driver"
AUDIT = LEAN / ".lake" / "build" / "bin" / "audit"
ALLOWED_AXIOMS = {"propext", "Classical.choice", "Quot.sound"}
FORBIDDEN = re.compile(
    r"\bsorry\b|\badmit\b|^\s*axiom\s|native_decide|bv_decide|implemented_by|\bunsafe\s|maxHeartbeats\s+0"
)
NWORKERS = int(os.environ.get("VERIF_WORKERS", str(min(16, os.cpu_count() or 4))))


def seed_from_env() -> int:
    try:
        return int(os.environ.get("VERIF_SEED", "0"))
    except ValueError:
        return 0


# --------------------------------------------------------------------------
# build


def _run(cmd, **kw):
    return subprocess.run(cmd, stdout=subprocess.PIPE, stderr=subprocess.STDOUT, text=True, **kw)


def regenerate_constants() -> tuple[bool, str]:
    """Rewrites lean/Cfi/Generated.lean from the repo's code (only if changed)."""
    env = dict(os.environ, PYTHONPATH=str(REPO))
    p = _run([sys.executable, str(VERIF / "harness" / "gen_constants.py")], env=env, cwd="/")
    return p.returncode == 0, p.stdout


def lake_build(modules: list[str] | None = None) -> dict:
    """Builds driver+audit first (needed by the oracle even if a proof breaks),
    then the theorem modules of the property being checked (all of them when
    `modules` is None).  Serialised across concurrently running checks."""
    res = {"driver_ok": False, "proofs_ok": False, "log": ""}
    lock = open(LEAN / ".build.lock", "w")
    fcntl.flock(lock, fcntl.LOCK_EX)
    try:
        p = _run(["lake", "build", "driver", "audit"], cwd=LEAN)
        res["driver_ok"] = p.returncode == 0 and DRIVER.exists()
        res["log"] += p.stdout[-6000:]
        p = _run(["lake", "build"] + (["+" + m for m in modules] if modules else []), cwd=LEAN)
        res["proofs_ok"] = p.returncode == 0
        if p.returncode != 0:
            res["log"] += p.stdout[-12000:]
    finally:
        fcntl.flock(lock, fcntl.LOCK_UN)
        lock.close()
    return res


def strip_comments(src: str) -> str:
    out, i, depth, n = [], 0, 0, len(src)
    while i < n:
        if src.startswith("/-", i):
            depth += 1
            i += 2
        elif depth and src.startswith("-/", i):
            depth -= 1
            i += 2
        elif depth:
            if src[i] == "\n":
                out.append("\n")
            i += 1
        elif src.startswith("--", i):
            while i < n and src[i] != "\n":
                i += 1
        else:
            out.append(src[i])
            i += 1
    return "".join(out)


def source_grep() -> list[str]:
    hits = []
    for f in sorted(LEAN.rglob("*.lean")):
        if ".lake" in f.parts:
            continue
        if f.name == "Audit.lean":
            continue  # `unsafe def main` of the audit tool itself; not part of any proof
        txt = strip_comments(f.read_text())
        for ln, line in enumerate(txt.splitlines(), 1):
            if FORBIDDEN.search(line):
                hits.append(f"{f.relative_to(LEAN)}:{ln}: {line.strip()}")
    return hits


def audit(modules: list[str]) -> dict:
    """Axioms of every theorem of the given Props modules."""
    p = subprocess.run(
        ["lake", "env", str(AUDIT), *modules], cwd=LEAN, stdout=subprocess.PIPE, stderr=subprocess.PIPE, text=True
    )
    thms, bad = [], []
    for line in p.stdout.splitlines():
        try:
            j = json.loads(line)
        except json.JSONDecodeError:
            continue
        thms.append(j)
        extra = set(j["axioms"]) - ALLOWED_AXIOMS
        if extra:
            bad.append({"theorem": j["theorem"], "axioms": sorted(extra)})
    return {"ok": p.returncode == 0 and not bad and len(thms) > 0, "theorems": thms, "bad": bad, "stderr": p.stderr[-2000:]}


# --------------------------------------------------------------------------
# driver


def driver_batch(requests: list[dict]) -> list[dict]:
    if not requests:
        return []
    data = "\n".join(json.dumps(r, separators=(",", ":")) for r in requests) + "\n"
    p = subprocess.run([str(DRIVER)], input=data, stdout=subprocess.PIPE, stderr=subprocess.PIPE, text=True)
    lines = p.stdout.splitlines()
    if p.returncode != 0 or len(lines) != len(requests):
        raise RuntimeError(f"driver failed rc={p.returncode} got {len(lines)}/{len(requests)} lines: {p.stderr[-1000:]}")
    return [json.loads(l) for l in lines]


# --------------------------------------------------------------------------
# case execution


CASE_TIMEOUT_S = int(os.environ.get("VERIF_CASE_TIMEOUT", "10"))
# after this many non-terminating cases a chunk stops calling the real code: each of them is already a
# failing input, and a change that makes (say) every re-appended element loop would otherwise cost
# CASE_TIMEOUT_S per case
MAX_TIMEOUTS_PER_CHUNK = 3
WALL_FACTOR = 12


class CaseTimeout(BaseException):
    pass


def case_hash(case) -> str:
    return hashlib.blake2b(json.dumps(case, sort_keys=True, default=str).encode(), digest_size=8).hexdigest()


def eval_cases(mod, cases: list) -> list[dict]:
    """Runs impl + driver + judge on the cases; returns one record per case."""
    _enter_scratch()
    import signal

    def _alarm(signum, frame):
        raise CaseTimeout()

    # The budget of a case is CPU time of this process (ITIMER_PROF), so that a busy machine cannot turn
    # a slow but terminating case into a "does not terminate" report; a wall-clock alarm WALL_FACTOR times
    # longer is the backstop for an operation that blocks without computing. The library (and pandas /
    # numpy behind it) is loaded before the first case, outside any budget.
    try:
        import cfinterface.files.registerfile  # noqa: F401
        import cfinterface.files.blockfile  # noqa: F401
        import cfinterface.files.sectionfile  # noqa: F401
    except Exception:
        pass  # a tree that does not import is reported by the cases themselves
    can_alarm = hasattr(signal, "SIGALRM")
    can_prof = hasattr(signal, "SIGPROF") and hasattr(signal, "setitimer")
    if can_alarm:
        try:
            old = signal.signal(signal.SIGALRM, _alarm)
            if can_prof:
                old_prof = signal.signal(signal.SIGPROF, _alarm)
        except ValueError:  # not in the main thread
            can_alarm = False
            can_prof = False
    reqs, obss = [], []
    ntimeouts = 0
    for c in cases:
        if ntimeouts >= MAX_TIMEOUTS_PER_CHUNK:
            break
        try:
            if can_alarm:
                if can_prof:
                    signal.setitimer(signal.ITIMER_PROF, CASE_TIMEOUT_S)
                    signal.alarm(CASE_TIMEOUT_S * WALL_FACTOR)
                else:
                    signal.alarm(CASE_TIMEOUT_S)
            obs = mod.run_impl(c)
        except CaseTimeout:
            ntimeouts += 1
            obs = {"harness_exc": "CaseTimeout", "msg": f"the operation on the real code did not finish within {CASE_TIMEOUT_S} s of CPU time"}
        except Exception as e:  # the harness itself must never die on a mutant
            obs = {"harness_exc": type(e).__name__, "msg": str(e)[:300], "tb": traceback.format_exc()[-1500:]}
        finally:
            if can_alarm:
                signal.alarm(0)
                if can_prof:
                    signal.setitimer(signal.ITIMER_PROF, 0)
        obss.append(obs)
        reqs.append(mod.request(c, obs))
    if can_alarm:
        signal.signal(signal.SIGALRM, old)
        if can_prof:
            signal.signal(signal.SIGPROF, old_prof)
    cases = cases[: len(obss)]
    resps = driver_batch(reqs)
    out = []
    for c, o, r in zip(cases, obss, resps):
        v = mod.judge(c, o, r)
        if o.get("harness_exc") == "CaseTimeout" and r.get("indomain", True):
            # a bounded operation that does not come back is a concrete failing input (non-termination,
            # e.g. a cyclic container), not an infrastructure problem
            v = {"status": "oracle", "why": o["msg"] + " (non-termination: cyclic links or a loop that does not consume)"}
        out.append({"case": c, "obs": o, "resp": r, "verdict": v})
    return out


def default_judge(case, obs, resp) -> dict:
    """verdict: {'status': ok|skip|oracle|corr|error, 'why': str}
    oracle = Spec.holds is false on the implementation's observation (a concrete
    failing input); corr = model and implementation disagree although holds."""
    if "error" in resp:
        return {"status": "error", "why": resp["error"]}
    if "harness_exc" in obs:
        return {"status": "oracle", "why": f"implementation raised {obs['harness_exc']}: {obs.get('msg')}"}
    if not resp.get("indomain", True):
        return {"status": "skip", "why": "out of domain"}
    if not resp.get("holds", False):
        return {"status": "oracle", "why": resp.get("why", "Spec.holds = false on implementation output")}
    if not resp.get("model_holds", True):
        return {"status": "error", "why": "Spec.holds = false on the MODEL's output (theorem would be false)"}
    if not resp.get("agree", False):
        return {"status": "corr", "why": resp.get("why", "model and implementation disagree")}
    return {"status": "ok", "why": ""}


_SCRATCH = None


def _enter_scratch():
    """cfinterface treats a content string that names an existing file as a path:
    run in an empty scratch directory (outside /repo and /verif, removed at exit)."""
    global _SCRATCH
    if _SCRATCH is None:
        import atexit
        import shutil
        import tempfile

        _SCRATCH = tempfile.mkdtemp(prefix="cfi-verif-")
        os.chdir(_SCRATCH)
        atexit.register(shutil.rmtree, _SCRATCH, True)
    return _SCRATCH


_COV = None


def _coverage_start():
    """VERIF_COVERAGE=<dir>: records which lines of the library the correspondence executes (sys.monitoring,
    each line reported once), one JSON file per worker process; harness/coverage_report.py merges them and
    lists the executable lines of cfinterface that NO check ever runs — the part of the code that is
    neither modelled nor tied to the model."""
    global _COV
    d = os.environ.get("VERIF_COVERAGE")
    if not d or _COV is not None or not hasattr(sys, "monitoring"):
        return
    import atexit

    _COV = set()
    mon = sys.monitoring
    tool = mon.COVERAGE_ID
    try:
        mon.use_tool_id(tool, "verif-cov")
    except ValueError:
        return
    root = str(REPO / "cfinterface")

    def on_line(code, line):
        if code.co_filename.startswith(root):
            _COV.add((code.co_filename[len(str(REPO)) + 1 :], line))
        return mon.DISABLE

    mon.register_callback(tool, mon.events.LINE, on_line)
    mon.set_events(tool, mon.events.LINE)

    def dump():
        Path(d).mkdir(parents=True, exist_ok=True)
        (Path(d) / f"{os.getpid()}.json").write_text(json.dumps(sorted(_COV)))

    atexit.register(dump)
    # worker processes of a pool are ended with os._exit: dump after every chunk as well
    global _coverage_dump
    _coverage_dump = dump


_coverage_dump = None


def _work(args):
    modname, chunk = args
    sys.path.insert(0, str(REPO))
    _coverage_start()
    _enter_scratch()
    mod = importlib.import_module(modname)
    t0 = time.time()
    cases = list(mod.cases_of(chunk))
    recs = eval_cases(mod, cases) if cases else []
    stats = {"n": len(recs), "status": {}, "hashes": [], "nontrivial_hashes": [], "dist": {}, "fail": [], "samples": []}
    known = [k for k in load_known() if k["kind"] == "known" and k["property"] == getattr(mod, "PROP", "") and "trigger" in k]
    nknown = 0
    for r in recs:
        st = r["verdict"]["status"]
        stats["status"][st] = stats["status"].get(st, 0) + 1
        h = case_hash(r["case"])
        stats["hashes"].append(h)
        if st != "skip" and mod.nontrivial(r["case"]):
            stats["nontrivial_hashes"].append(h)
        for k in mod.features(r["case"], r["obs"]):
            stats["dist"][k] = stats["dist"].get(k, 0) + 1
        if st in ("oracle", "corr", "error"):
            # failures that are a listed known finding are kept apart (at most 2 per chunk) so that
            # they can never crowd out a different violation of the same property
            kf = None
            if st == "oracle":
                for k in known:
                    try:
                        if mod.matches_known(k["trigger"], r["case"]):
                            kf = k["trigger"]
                            break
                    except Exception:
                        pass
            if kf is not None:
                stats["status"]["known"] = stats["status"].get("known", 0) + 1
                if nknown < 2:
                    nknown += 1
                    r["known"] = kf
                    stats["fail"].append(r)
            elif sum(1 for x in stats["fail"] if "known" not in x) < 5:
                stats["fail"].append(r)
    if recs:
        stats["samples"] = [recs[0]["case"], recs[len(recs) // 2]["case"]]
    stats["chunk"] = chunk
    stats["wall"] = time.time() - t0
    if _coverage_dump is not None:
        _coverage_dump()
    return stats


def run_chunks(modname: str, chunks: list) -> dict:
    agg = {"n": 0, "status": {}, "hashes": set(), "nt": set(), "dist": {}, "fail": [], "samples": [], "chunks": len(chunks)}
    if not chunks:
        return agg
    with cf.ProcessPoolExecutor(max_workers=min(NWORKERS, len(chunks))) as ex:
        for st in ex.map(_work, [(modname, c) for c in chunks]):
            agg["n"] += st["n"]
            for k, v in st["status"].items():
                agg["status"][k] = agg["status"].get(k, 0) + v
            agg["hashes"].update(st["hashes"])
            agg["nt"].update(st["nontrivial_hashes"])
            for k, v in st["dist"].items():
                agg["dist"][k] = agg["dist"].get(k, 0) + v
            agg["fail"].extend(st["fail"])
            if len(agg["samples"]) < 6:
                agg["samples"].extend(st["samples"][: 6 - len(agg["samples"])])
    return agg


# --------------------------------------------------------------------------
# shrinking / replay / known findings


def shrink(mod, rec: dict, want: str, budget: int = 400, reject=None) -> dict:
    """Greedy delta debugging with the property module's `shrinks(case)`
    candidates; keeps a candidate if it still fails with the same status — and is not `reject`ed: a failure
    that is NOT a listed known finding must not be shrunk INTO one (the smaller case would then be printed
    as the known finding and the different violation it came from would be lost)."""
    best = rec
    tried = 0
    improved = True
    while improved and tried < budget:
        improved = False
        cands = list(mod.shrinks(best["case"]))[: max(0, budget - tried)]
        if not cands:
            break
        # evaluate in batches so the driver is started once per batch
        for i in range(0, len(cands), 64):
            batch = cands[i : i + 64]
            tried += len(batch)
            try:
                recs = eval_cases(mod, batch)
            except Exception:
                continue
            hit = next((r for r in recs if r["verdict"]["status"] == want and not (reject is not None and reject(r["case"]))), None)
            if hit is not None:
                best = hit
                improved = True
                break
    return best


def load_known() -> list[dict]:
    out = []
    f = VERIF / "KNOWN_FINDINGS.txt"
    if not f.exists():
        return out
    for line in f.read_text().splitlines():
        line = line.strip()
        if not line or line.startswith("#"):
            continue
        m = re.match(r"^(known|fixed):\s+property=(C\d+)\s+(.*)$", line)
        if m:
            kind, prop, rest = m.groups()
            ent = {"kind": kind, "property": prop, "text": rest}
            mt = re.search(r"trigger=(\S+)", rest)
            if mt:
                ent["trigger"] = mt.group(1)
            out.append(ent)
    return out


def write_replay(prop: str, payload: dict) -> Path:
    d = VERIF / "replays"
    d.mkdir(exist_ok=True)
    h = hashlib.blake2b(json.dumps(payload, sort_keys=True, default=str).encode(), digest_size=6).hexdigest()
    p = d / f"{prop}-{h}.json"
    p.write_text(json.dumps(payload, indent=1, default=str))
    return p


# --------------------------------------------------------------------------
# evidence


def write_evidence(prop: str, ev: dict):
    # bin/seed points this elsewhere so that runs against a deliberately broken
    # tree never overwrite the evidence of the real one
    d = Path(os.environ.get("VERIF_EVIDENCE_DIR") or (VERIF / "evidence"))
    d.mkdir(parents=True, exist_ok=True)
    (d / f"{prop}.json").write_text(json.dumps(ev, indent=1, default=str))
