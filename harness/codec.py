"""JSON encoding of values / fields shared with lean/Driver/Codec.lean, and
construction of the real cfinterface objects from the same descriptors."""
from __future__ import annotations

import math
import struct
from datetime import datetime

NAN_BITS = 0x7FF8000000000000


def f2bits(x: float) -> int:
    if x != x:
        return NAN_BITS
    return struct.unpack("<Q", struct.pack("<d", x))[0]


def bits2f(b: int) -> float:
    return struct.unpack("<d", struct.pack("<Q", b))[0]


def enc_str(s: str):
    return [ord(c) for c in s]


def dec_str(a) -> str:
    return "".join(chr(c) for c in a)


def enc_val(v):
    import pandas as pd

    if v is None:
        return None
    if v is pd.NaT:
        return {"nat": True}
    if isinstance(v, bool):
        return {"i": int(v)}
    if isinstance(v, int):
        return {"i": v}
    if isinstance(v, float):
        return {"f": f2bits(v)}
    if isinstance(v, str):
        return {"s": enc_str(v)}
    if isinstance(v, datetime):
        return {"d": [v.year, v.month, v.day, v.hour, v.minute, v.second, v.microsecond]}
    if isinstance(v, bytes):
        return {"b": list(v)}
    try:
        import numpy as np

        if isinstance(v, np.integer):
            return {"i": int(v)}
        if isinstance(v, np.floating):
            return {"f": f2bits(float(v))}
    except ImportError:
        pass
    return {"other": type(v).__name__}


def dec_val(j, np_scalars=False):
    """`np_scalars`: integers and floats arrive as numpy scalars of the widest type (what a value
    taken out of a pandas DataFrame is) instead of Python int / float — the same numbers"""
    import pandas as pd

    if j is None:
        return None
    if np_scalars and ("i" in j or "f" in j):
        import numpy as np

        if "i" in j:
            return np.int64(j["i"]) if -(2**63) <= j["i"] < 2**63 else j["i"]
        return np.float64(bits2f(j["f"]))
    if "i" in j:
        return j["i"]
    if "s" in j:
        return dec_str(j["s"])
    if "f" in j:
        return bits2f(j["f"])
    if "d" in j:
        return datetime(*j["d"])
    if "nat" in j:
        return pd.NaT
    raise ValueError(j)


def enc_data(x):
    if isinstance(x, str):
        return {"s": enc_str(x)}
    if isinstance(x, (bytes, bytearray)):
        return {"b": list(x)}
    return {"exc": "NotData:" + type(x).__name__}


def dec_data(j):
    if "s" in j:
        return dec_str(j["s"])
    return bytes(j["b"])


def enc_exc(e: BaseException):
    return {"exc": type(e).__name__, "msg": str(e)[:200]}


# ---- field descriptors: {"k": "lit|int|flt|date", "size", "start", "dec", "fmt", "sep", "fmts"}
def fd_lit(size, start=0):
    return {"k": "lit", "size": size, "start": start}


def fd_int(size, start=0):
    return {"k": "int", "size": size, "start": start}


def fd_flt(size, start=0, dec=4, fmt="F", sep="."):
    return {"k": "flt", "size": size, "start": start, "dec": dec, "fmt": enc_str(fmt), "sep": enc_str(sep)}


def fd_date(size, start=0, fmts=("%Y/%m/%d",)):
    return {"k": "date", "size": size, "start": start, "fmts": [enc_str(f) for f in fmts]}


def mk_field(fd):
    from cfinterface.components.literalfield import LiteralField
    from cfinterface.components.integerfield import IntegerField
    from cfinterface.components.floatfield import FloatField
    from cfinterface.components.datetimefield import DatetimeField

    k = fd["k"]
    # a fifth of the field descriptions (chosen by a hash of the description, so that a
    # replay builds the same object) are instances of a user subclass two levels below the
    # framework class that overrides nothing: inherited behaviour must be the same behaviour
    sub = (fd["size"] * 7 + fd["start"] * 3 + len(k)) % 5 == 0
    if k == "lit":
        return _cls(LiteralField, sub)(fd["size"], fd["start"])
    if k == "int":
        return _cls(IntegerField, sub)(fd["size"], fd["start"])
    if k == "flt":
        return _cls(FloatField, sub)(fd["size"], fd["start"], fd["dec"], dec_str(fd["fmt"]), dec_str(fd["sep"]))
    if k == "date":
        fmts = [dec_str(f) for f in fd["fmts"]]
        return _cls(DatetimeField, sub)(fd["size"], fd["start"], fmts[0] if len(fmts) == 1 else fmts)
    raise ValueError(k)


_SUBS = {}


def _cls(base, sub):
    if not sub:
        return base
    if base not in _SUBS:
        mid = type("User" + base.__name__, (base,), {})
        _SUBS[base] = type("UserUser" + base.__name__, (mid,), {})
    return _SUBS[base]


def py_reference_text(fd, span: str):
    """CPython's own interpretation of a span (independent of cfinterface):
    used to validate the Lean model's parsers against the interpreter."""
    k = fd["k"]
    try:
        if k == "lit":
            return span.strip()
        if k == "int":
            return int(span)
        if k == "flt":
            return float(span.replace(dec_str(fd["sep"]), "."))
        if k == "date":
            for f in fd["fmts"]:
                try:
                    return datetime.strptime(span.strip(), dec_str(f))
                except ValueError:
                    pass
            return None
    except ValueError:
        return None
