"""
Which lines of the library do the correspondence checks execute?

    VERIF_COVERAGE=<dir> bin/check Cxx quick      (for every property; the workers write <dir>/<pid>.json)
    python harness/coverage_report.py <dir> [--write coverage/summary.json]

Merges the recorded (file, line) pairs and compares them with the executable lines of every module of
cfinterface (the line table of every code object, docstrings and `def` / `class` headers excluded). The
lines that no check runs are listed: they are the part of the code the model is not tied to.
"""
from __future__ import annotations

import json
import os
import sys
from pathlib import Path

REPO = Path(os.environ.get("CFI_REPO", "/repo")).resolve()


def executable_lines(path: Path) -> set[int]:
    src = path.read_text()
    code = compile(src, str(path), "exec")
    out: set[int] = set()

    def walk(co, top):
        for _, _, ln in co.co_lines():
            if ln is not None:
                out.add(ln)
        for c in co.co_consts:
            if hasattr(c, "co_lines"):
                walk(c, False)

    walk(code, True)
    return out


def main() -> int:
    d = Path(sys.argv[1])
    hit: dict[str, set[int]] = {}
    for f in d.glob("*.json"):
        for fn, ln in json.loads(f.read_text()):
            hit.setdefault(fn, set()).add(ln)
    report = {"files": {}, "total_executable": 0, "total_hit": 0}
    for path in sorted((REPO / "cfinterface").rglob("*.py")):
        rel = str(path.relative_to(REPO))
        ex = executable_lines(path)
        # module-level statements (imports, class bodies, defs) run at import time, before the recorder starts in a
        # worker that already imported the library: count only lines inside functions for the "never run" list
        import ast

        tree = ast.parse(path.read_text())
        infunc: set[int] = set()
        for node in ast.walk(tree):
            if isinstance(node, (ast.FunctionDef, ast.AsyncFunctionDef)):
                body = node.body
                # skip a leading docstring
                if body and isinstance(body[0], ast.Expr) and isinstance(getattr(body[0], "value", None), ast.Constant) and isinstance(body[0].value.value, str):
                    body = body[1:]
                for st in body:
                    for sub in ast.walk(st):
                        if hasattr(sub, "lineno"):
                            infunc.add(sub.lineno)
        ex_f = sorted(ex & infunc)
        h = hit.get(rel, set())
        missed = [l for l in ex_f if l not in h]
        src = path.read_text().splitlines()
        report["files"][rel] = {"executable_in_functions": len(ex_f), "hit": len(ex_f) - len(missed),
                                "never_run": [{"line": l, "text": src[l - 1].strip()[:100]} for l in missed]}
        report["total_executable"] += len(ex_f)
        report["total_hit"] += len(ex_f) - len(missed)
    if "--write" in sys.argv:
        out = Path(sys.argv[sys.argv.index("--write") + 1])
        out.parent.mkdir(parents=True, exist_ok=True)
        out.write_text(json.dumps(report, indent=1))
    print(f"{report['total_hit']}/{report['total_executable']} executable lines inside functions are run by the checks")
    for fn, r in report["files"].items():
        for m in r["never_run"]:
            print(f"  never run: {fn}:{m['line']}: {m['text']}")
    return 0


if __name__ == "__main__":
    sys.exit(main())
