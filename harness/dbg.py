"""debug helper: python dbg.py c02 quick -> summary of failing cases by 'why' prefix"""
import sys, importlib, collections, json
sys.path.insert(0, '/verif/harness'); sys.path.insert(0, '/repo')
import core
mod = importlib.import_module('props.' + sys.argv[1])
tier = sys.argv[2] if len(sys.argv) > 2 else 'quick'
agg = core.run_chunks(mod.__name__, mod.chunks(tier, 0))
print(agg['n'], agg['status'])
seen = collections.Counter()
for r in agg['fail']:
    k = (r['verdict']['status'], r['verdict']['why'][:int(sys.argv[3]) if len(sys.argv)>3 else 40])
    seen[k] += 1
    if seen[k] <= 1:
        print(k); print('   case', json.dumps(r['case'])[:600]); print('   obs', json.dumps(r['obs'])[:300]); print('   resp', json.dumps(r['resp'])[:300])
