#!/usr/bin/env python3
"""parallel regression of the saved seeded changes / benign refactorings: each slot has its own copy of /verif
and each job its own worktree of /repo (nothing is applied to /repo itself).

    python3 tools/prun.py seeded 4 [ids to skip ...]   # every seeded/<id> against the check of the property it breaks
    python3 tools/prun.py cross 4 <id> ...             # the named seeded changes against ALL twenty checks
    python3 tools/prun.py benign 4                     # every benign/<id> against all twenty checks (an alarm is a false alarm)

Scratch copies and worktrees live under /tmp/wt (created on demand, removable afterwards); results are recorded in
seeded/<id>/meta.json (detected_by) and benign/<id>/meta.json (results) and logged to /tmp/wt/prun-<mode>.log."""
import json, os, re, subprocess, sys, threading, queue, pathlib, shutil, time
NSLOTS = int(sys.argv[2]) if len(sys.argv) > 2 else 4
mode = sys.argv[1]  # seeded | benign
V = pathlib.Path('/verif')
lock = threading.Lock()
def sh(cmd, **kw):
    return subprocess.run(cmd, shell=True, stdout=subprocess.PIPE, stderr=subprocess.STDOUT, text=True, **kw)
for s in range(NSLOTS):
    d = f'/tmp/wt/v{s}'
    sh(f"mkdir -p {d} && rsync -a --delete --exclude .git --exclude replays --exclude seeded --exclude benign /verif/ {d}/")
jobs = queue.Queue()
if mode == 'seeded':
    skip = set(sys.argv[3:])
    for d in sorted((V/'seeded').iterdir()):
        m = json.loads((d/'meta.json').read_text())
        if d.name in skip: continue
        jobs.put((d.name, str(d/'patch.diff'), [m['breaks_property']]))
elif mode == 'cross':
    for jid in sys.argv[3:]:
        jobs.put((jid, str(V/'seeded'/jid/'patch.diff'), [f"C{i:02d}" for i in range(1, 21)]))
else:
    for d in sorted((V/'benign').iterdir()):
        jobs.put((d.name, str(d/'patch.diff'), [f"C{i:02d}" for i in range(1, 21)]))
out = open(f'/tmp/wt/prun-{mode}.log', 'a')
def worker(slot):
    vd = f'/tmp/wt/v{slot}'
    while True:
        try: jid, patch, props = jobs.get_nowait()
        except queue.Empty: return
        wt = f'/tmp/wt/r{slot}'
        with lock:
            sh(f"git -C /repo worktree remove --force {wt}; git -C /repo worktree add --detach {wt}")
            r = sh(f"git -C {wt} apply {patch}")
        if r.returncode != 0:
            with lock: out.write(f"{jid} PATCH-DOES-NOT-APPLY\n"); out.flush()
            continue
        res = {}
        for p in props:
            env = dict(os.environ, CFI_REPO=wt, VERIF_EVIDENCE_DIR=f'/tmp/wt/ev/{jid}')
            t0 = time.time()
            r = subprocess.run([f'{vd}/bin/check', p, 'quick'], stdout=subprocess.PIPE, stderr=subprocess.STDOUT, text=True, env=env)
            line = " ".join(l for l in r.stdout.splitlines() if l.startswith('VIOLATION'))[:300]
            res[p] = (r.returncode, line, round(time.time() - t0))
            why = ""
            mm = re.search(r"replay=(\S+)", line)
            if mm and pathlib.Path(mm.group(1)).exists():
                try: why = (json.loads(pathlib.Path(mm.group(1)).read_text()).get('why') or '')[:400]
                except Exception: pass
            with lock:
                if mode in ('seeded', 'cross'):
                    mp = V/'seeded'/jid/'meta.json'
                    m = json.loads(mp.read_text())
                    m.setdefault('detected_by', {})[f'{p}:quick'] = {"exit": r.returncode, "violation_line": line.replace(vd, '/verif'), "no_failing_input_found": "no-failing-input-found" in line, "why": why}
                    mp.write_text(json.dumps(m, indent=1))
                    out.write(f"{jid} {p} exit={r.returncode} {res[p][2]}s {line[:90]}\n")
                else:
                    mp = V/'benign'/jid/'meta.json'
                    m = json.loads(mp.read_text())
                    m.setdefault('results', {})[p] = {"exit": r.returncode, "violation_line": line}
                    mp.write_text(json.dumps(m, indent=1))
                    if r.returncode != 0:
                        out.write(f"{jid} {p} exit={r.returncode} ALARM {line[:200]}\n")
                out.flush()
        if mode == 'benign':
            with lock: out.write(f"{jid} done {[k for k, v in res.items() if v[0] != 0]}\n"); out.flush()
ts = [threading.Thread(target=worker, args=(s,)) for s in range(NSLOTS)]
[t.start() for t in ts]; [t.join() for t in ts]
for s in range(NSLOTS):
    sh(f"git -C /repo worktree remove --force /tmp/wt/r{s}")
    shutil.rmtree(f'/tmp/wt/v{s}', ignore_errors=True)
sh("git -C /repo worktree prune")
out.write("ALL-DONE\n"); out.flush()
